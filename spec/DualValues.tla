----------------------------- MODULE DualValues -----------------------------
(***************************************************************************)
(* dual() returns valid shadow prices of the user's constraints (C14).     *)
(*                                                                         *)
(* (a) GENERATOR.  A user model is written statement by statement:         *)
(*       AddLin   A x <= b | A x >= b | A x == b   (1..2 rows, LinConstr)  *)
(*       AddBnd   x[idx] >= l | x[idx] <= u        (Bounds object)         *)
(*       AddAux   abs(x[i]) <= k | norm(x,1) <= k | norm(x,inf) <= k       *)
(*                (convex constraints: their rows are auxiliary rows of    *)
(*                the standard form, none of them belongs to the user)     *)
(*       DoMath   an explicit do_math() between statements (taken right    *)
(*                after a linear statement: index stability)               *)
(*       Solve    the implicit do_math() of solve(); ends the behaviour    *)
(*     `hist' is the statement list (ghost: what the user wrote); TLC      *)
(*     enumerates every interleaving of linear, bound and auxiliary        *)
(*     statements (bound statements keep their catalogue order among       *)
(*     themselves).  Only complete models are solved: every                *)
(*     entry carries exactly one lower and one upper bound (so the LP is   *)
(*     bounded), some lattice point of the box satisfies every row (so it  *)
(*     is feasible), and every auxiliary constraint is loose on the whole  *)
(*     box (AuxLoose - so its rows cannot be active and carry zero         *)
(*     multipliers: the user's rows and bounds alone form the              *)
(*     certificate; this is the stated assumption of every exported case). *)
(*                                                                         *)
(* (b) The MAP the code implements, transcribed (lp.py Model.st :420-423,  *)
(*     do_math :574-579,:623-626, ro.py Model.do_math :371,:387-397,       *)
(*     LinConstr.dual :3074-3088, Bounds.dual :3188-3203):                 *)
(*       - only LinConstr objects get an `index', taken from the running   *)
(*         counter Model.constr_idx: at st() in an lp.Model; in a ro.Model *)
(*         every re-formulation re-adds all constraints to rc_model, which *)
(*         hands out fresh indices (the counter is never reset);           *)
(*       - ciarray = index of each row of lin_constr, in order, followed   *)
(*         by None for every auxiliary row (objective epigraph, rows of    *)
(*         the convex constraints);                                        *)
(*       - slice of a constraint = rows {i : ciarray[i] = its index}.      *)
(*     Ideal, on the transcription (ghost `owner' = the statement and row  *)
(*     each standard-form row came from): SliceIsOwnRows, ShapesMatch.     *)
(*     The orientation / sign convention fixed by the property is itself   *)
(*     checked to be an LP duality: ConventionIsWeakDuality.               *)
(*                                                                         *)
(* (c) VALIDATOR (code -> spec).  One record per (model, interface) with   *)
(*     the user's statements (integer data) and what the library returned, *)
(*     scaled by SC to integers: dual() of every statement, optimal value, *)
(*     primal solution.  TLC decides Stationarity, DualObjective, Signs    *)
(*     and Shapes up to the rounding bound.                                *)
(***************************************************************************)
EXTENDS Integers, Sequences, FiniteSets, TLC, FiniteSetsExt, SequencesExt, Json

CONSTANTS N,          \* number of variable entries
          Fronts,     \* front ends: subset of {"ro", "lp"}
          Objs,       \* objective vectors (tuples of length N)
          Senses,     \* subset of {"min", "max"}
          LinCat,     \* catalogue of linear statements  [kind, rows, sense, rhs, idx]
          BndCat,     \* catalogue of bound statements (a sequence: bound statements are written in this relative order)
          AuxCat,     \* catalogue of auxiliary-row generators
          MaxLin, MaxAux, MaxStmts, MaxDoMath,
          YL,         \* radius of the dual lattice of ConventionIsWeakDuality
          Results,    \* validator mode: set of records from the real library; {} otherwise
          SC          \* scale of the validator records

NONE == -1          \* Python None in index / ciarray

\* a statement: [kind |-> "lin" | "bnd" | "aux" | "domath",
\*               rows |-> coefficient vectors ("lin"),   sense |-> "le","ge","eq" | "lb","ub" | "abs","norm1","norminf" | "-",
\*               rhs  |-> right-hand sides ("lin") | <<value>> ("bnd") | <<k>> ("aux"),
\*               idx  |-> entries (1-based, ascending) of a "bnd" statement / of the argument of abs]
DoMathMark == [kind |-> "domath", rows |-> <<>>, sense |-> "-", rhs |-> <<>>, idx |-> <<>>]

-----------------------------------------------------------------------------
(* arithmetic on sequences *)
AbsV(v) == IF v < 0 THEN -v ELSE v
RECURSIVE SumS(_)
SumS(s) == IF Len(s) = 0 THEN 0 ELSE Head(s) + SumS(Tail(s))
Dot(u, v) == SumS([k \in 1..Len(u) |-> u[k] * v[k]])
Neg(u) == [k \in 1..Len(u) |-> -u[k]]
Cat(seqs) == IF Len(seqs) = 0 THEN <<>> ELSE FlattenSeq(seqs)

IsLin(s) == s.kind = "lin"
IsBnd(s) == s.kind = "bnd"
IsAux(s) == s.kind = "aux"
PosLin(h) == SelectSeq([p \in 1..Len(h) |-> p], LAMBDA p : IsLin(h[p]))
PosBnd(h) == SelectSeq([p \in 1..Len(h) |-> p], LAMBDA p : IsBnd(h[p]))
PosAux(h) == SelectSeq([p \in 1..Len(h) |-> p], LAMBDA p : IsAux(h[p]))
InSeq(s, e) == \E q \in 1..Len(s) : s[q] = e

VARIABLES decl,     \* [front, obj, sense]: front end and the user's objective (ghost)
          hist,     \* the statements in the order written (ghost; do_math marks included)
          cidx,     \* Model.constr_idx
          index,    \* index[p]: the .index attribute of the object of statement p
          linc,     \* rc_model.lin_constr as statement positions
          ciarray,  \* Model.ciarray as built by the last do_math
          owner,    \* ghost: <<statement, row>> every standard-form row came from (<<0,0>>: not the user's)
          fresh,    \* the compiled program is up to date (pupdate = False)
          oracle,   \* ghost, set by Solve: bounds on the optimal value from the property's convention / from lattice points
          ndm, done, res
vars == <<decl, hist, cidx, index, linc, ciarray, owner, fresh, oracle, ndm, done, res>>

-----------------------------------------------------------------------------
(* (b) transcription of formulation *)

\* rows a convex constraint contributes to aux_constr (lp.py:542-560)
AuxRows(s) == IF s.sense = "abs" THEN 2 * Len(s.idx) ELSE 2 * N + 1

Formulate(h, fr, idx0, c0, lc0) ==
    LET lins == PosLin(h)
        rank(p) == CHOOSE k \in 1..Len(lins) : lins[k] = p
        \* ro.Model.do_math: rc_model.reset(); rc_model.st(constr) for every constraint -> new indices
        nIndex == IF fr = "ro" THEN [p \in 1..Len(h) |-> IF IsLin(h[p]) THEN c0 + rank(p) - 1 ELSE NONE] ELSE idx0
        nC == IF fr = "ro" THEN c0 + Len(lins) ELSE c0
        nL == IF fr = "ro" THEN lins ELSE lc0
        userRows == Cat([k \in 1..Len(nL) |-> [q \in 1..Len(h[nL[k]].rows) |-> <<nL[k], q>>]])
        auxs == PosAux(h)
        auxRows == Cat([k \in 1..Len(auxs) |-> [q \in 1..AuxRows(h[auxs[k]]) |-> <<0, 0>>]])
        own == userRows \o << <<0, 0>> >> \o auxRows            \* lin_constr + [objective row] + rows of convex constraints
    IN [index |-> nIndex, cidx |-> nC, linc |-> nL, owner |-> own,
        \* constr_idx_list = [item.index] * rows for item in lin_constr + aux_constr (aux items have index None)
        ciarray |-> [i \in 1..Len(own) |-> IF own[i][1] = 0 THEN NONE ELSE nIndex[own[i][1]]]]

\* LinConstr.dual: pi[ciarray == self.index]   (raises when index is None)
Slice(p) == SelectSeq([i \in 1..Len(ciarray) |-> i], LAMBDA i : ciarray[i] = index[p])
\* length of what dual() returns for statement p
DualLen(p) == IF IsLin(hist[p]) THEN Len(Slice(p)) ELSE IF IsBnd(hist[p]) THEN Len(hist[p].idx) ELSE 0

-----------------------------------------------------------------------------
(* ideal *)
SliceOwn(p) == /\ index[p] # NONE
               /\ [k \in 1..Len(Slice(p)) |-> owner[Slice(p)[k]]] = [q \in 1..Len(hist[p].rows) |-> <<p, q>>]
SliceIsOwnRowsPred == \A p \in 1..Len(hist) : IsLin(hist[p]) => SliceOwn(p)
ShapesMatchPred == \A p \in 1..Len(hist) : IsLin(hist[p]) => DualLen(p) = Len(hist[p].rows)

\* each user constraint's slice of the multiplier vector is exactly its own rows, in order, whatever auxiliary
\* rows were added around it and however often do_math ran
SliceIsOwnRows == (Results = {} /\ fresh) => SliceIsOwnRowsPred
ShapesMatch == (Results = {} /\ fresh) => ShapesMatchPred

-----------------------------------------------------------------------------
(* (a) the user's model (ghost semantics) *)

Covered(h, kind, j) == \E p \in 1..Len(h) : IsBnd(h[p]) /\ h[p].sense = kind /\ InSeq(h[p].idx, j)
BndVal(h, kind, j) == LET p == CHOOSE p \in 1..Len(h) : IsBnd(h[p]) /\ h[p].sense = kind /\ InSeq(h[p].idx, j)
                      IN h[p].rhs[1]
Lo(j) == BndVal(hist, "lb", j)
Hi(j) == BndVal(hist, "ub", j)
Boxed == \A j \in 1..N : Covered(hist, "lb", j) /\ Covered(hist, "ub", j)
Complete == Len(PosLin(hist)) >= 1 /\ Boxed /\ \A j \in 1..N : Lo(j) <= Hi(j)

RowHolds(s, q, x) == LET v == Dot(s.rows[q], x) IN
                     CASE s.sense = "le" -> v <= s.rhs[q]
                       [] s.sense = "ge" -> v >= s.rhs[q]
                       [] s.sense = "eq" -> v = s.rhs[q]
RECURSIVE BoxPoints(_)
BoxPoints(j) == IF j = 0 THEN {<<>>} ELSE {Append(s, v) : s \in BoxPoints(j - 1), v \in Lo(j)..Hi(j)}
FeasPoints == {x \in BoxPoints(N) : \A p \in 1..Len(hist) : IsLin(hist[p]) => \A q \in 1..Len(hist[p].rows) : RowHolds(hist[p], q, x)}

\* assumption stated per exported case: no auxiliary constraint can be active anywhere in the box
BoxRadius == SumS([j \in 1..N |-> Max({AbsV(Lo(j)), AbsV(Hi(j))})])
AuxLoose == \A p \in 1..Len(hist) : IsAux(hist[p]) => hist[p].rhs[1] > BoxRadius

-----------------------------------------------------------------------------
(* The convention of the property, as a duality (checked on the spec itself).                      *)
(* Orientation: <= and == rows as written, a >= row as the <= row of its negation.                 *)
(* A certificate (pi, rhoL, rhoU) for min: pi <= 0 on <= rows, free on == rows, rhoL >= 0,         *)
(* rhoU <= 0, c = sum pi a + rhoL + rhoU; its value sum pi b + rhoL lo + rhoU hi bounds every      *)
(* feasible objective from below.  For max all signs are reversed and the value bounds from above. *)

Orient(s) == IF s.sense = "ge" THEN [a |-> [q \in 1..Len(s.rows) |-> Neg(s.rows[q])], b |-> Neg(s.rhs), eq |-> FALSE]
             ELSE [a |-> s.rows, b |-> s.rhs, eq |-> s.sense = "eq"]
URows == Cat([k \in 1..Len(PosLin(hist)) |->
              LET o == Orient(hist[PosLin(hist)[k]]) IN [q \in 1..Len(o.a) |-> [a |-> o.a[q], b |-> o.b[q], eq |-> o.eq]]])
RECURSIVE PiLattice(_, _)
PiLattice(rows, sg) ==      \* sign-feasible multipliers on the lattice: sg * pi <= 0 on inequality rows
    IF Len(rows) = 0 THEN {<<>>}
    ELSE LET r == rows[Len(rows)]
             dom == IF r.eq THEN (-YL)..YL ELSE IF sg = 1 THEN (-YL)..0 ELSE 0..YL
         IN {Append(s, v) : s \in PiLattice(SubSeq(rows, 1, Len(rows) - 1), sg), v \in dom}
\* best bound-multipliers for given pi: the reduced cost r_j goes to the bound whose sign rule it satisfies
CertValue(rows, lo, hi, pi, sg) ==
    LET red == [j \in 1..N |-> decl.obj[j] - SumS([k \in 1..Len(rows) |-> pi[k] * rows[k].a[j]])]
    IN SumS([k \in 1..Len(rows) |-> pi[k] * rows[k].b])
       + SumS([j \in 1..N |-> IF sg * red[j] >= 0 THEN red[j] * lo[j] ELSE red[j] * hi[j]])
Sg == IF decl.sense = "min" THEN 1 ELSE -1
CertBest == LET rows == URows
                lo == [j \in 1..N |-> Lo(j)]
                hi == [j \in 1..N |-> Hi(j)]
                vals == {CertValue(rows, lo, hi, pi, Sg) : pi \in PiLattice(rows, Sg)}
            IN IF Sg = 1 THEN Max(vals) ELSE Min(vals)
\* value of the certificate that uses no row at all: differs from the optimum iff some user row matters
BoxBest == CertValue(URows, [j \in 1..N |-> Lo(j)], [j \in 1..N |-> Hi(j)], [k \in 1..Len(URows) |-> 0], Sg)
PrimalBest(fp) == LET vals == {Dot(decl.obj, x) : x \in fp} IN IF Sg = 1 THEN Min(vals) ELSE Max(vals)
ConventionIsWeakDuality == (Results = {} /\ done) =>
                               IF Sg = 1 THEN oracle.certBest <= oracle.primalBest ELSE oracle.certBest >= oracle.primalBest

-----------------------------------------------------------------------------
(* actions *)

NStmts == Len(PosLin(hist)) + Len(PosBnd(hist)) + Len(PosAux(hist))

Push(s) ==
    /\ hist' = Append(hist, s)
    /\ fresh' = FALSE
    /\ IF IsLin(s) /\ decl.front = "lp"
       THEN index' = Append(index, cidx) /\ cidx' = cidx + 1 /\ linc' = Append(linc, Len(hist) + 1)   \* lp.Model.st
       ELSE index' = Append(index, NONE) /\ UNCHANGED <<cidx, linc>>                                  \* ro.Model.st: all_constr only
    /\ UNCHANGED <<decl, ciarray, owner, oracle, ndm, done, res>>

Open == Results = {} /\ ~done /\ NStmts < MaxStmts
AddLin == /\ Open /\ Len(PosLin(hist)) < MaxLin
          /\ \E s \in LinCat : ~InSeq(hist, s) /\ Push(s)
\* bound statements keep their catalogue order among themselves (their mutual order only permutes Model.bounds, whose
\* effect - a min / max per entry - is order-free when every entry has at most one bound of a kind); they interleave
\* freely with everything else
BndRank(s) == CHOOSE i \in 1..Len(BndCat) : BndCat[i] = s
AddBnd == /\ Open
          /\ \E i \in 1..Len(BndCat) :
                LET s == BndCat[i] IN
                /\ \A p \in 1..Len(hist) : IsBnd(hist[p]) => BndRank(hist[p]) < i
                /\ \A q \in 1..Len(s.idx) : ~Covered(hist, s.sense, s.idx[q])     \* at most one bound of a kind per entry
                /\ Push(s)
AddAux == /\ Open /\ Len(PosAux(hist)) < MaxAux
          /\ \E s \in AuxCat : ~InSeq(hist, s) /\ Push(s)

\* an explicit do_math() between statements; it changes nothing for the user, the point is the stability of the
\* indices already handed out, so it is taken right after a linear statement
DoMath == /\ Results = {} /\ ~done /\ ~fresh /\ ndm < MaxDoMath /\ Len(hist) > 0 /\ IsLin(hist[Len(hist)])
          /\ LET f == Formulate(hist, decl.front, index, cidx, linc) IN
             /\ index' = Append(f.index, NONE) /\ cidx' = f.cidx /\ linc' = f.linc
             /\ ciarray' = f.ciarray /\ owner' = f.owner
          /\ hist' = Append(hist, DoMathMark)
          /\ fresh' = TRUE /\ ndm' = ndm + 1
          /\ UNCHANGED <<decl, oracle, done, res>>

Solve == /\ Results = {} /\ ~done /\ Complete /\ AuxLoose
         /\ LET fp == FeasPoints IN
            /\ fp # {}
            /\ oracle' = [certBest |-> CertBest, primalBest |-> PrimalBest(fp), boxBest |-> BoxBest]
         /\ IF fresh THEN UNCHANGED <<index, cidx, linc, ciarray, owner>>          \* cache hit (pupdate False)
            ELSE LET f == Formulate(hist, decl.front, index, cidx, linc) IN
                 /\ index' = f.index /\ cidx' = f.cidx /\ linc' = f.linc
                 /\ ciarray' = f.ciarray /\ owner' = f.owner
         /\ fresh' = TRUE /\ done' = TRUE
         /\ UNCHANGED <<decl, hist, ndm, res>>

Init == /\ IF Results = {} THEN res = [tid |-> 0] /\ decl \in [front : Fronts, obj : Objs, sense : Senses]
           ELSE res \in Results /\ decl = <<>>
        /\ hist = <<>> /\ cidx = 0 /\ index = <<>> /\ linc = <<>> /\ ciarray = <<>> /\ owner = <<>>
        /\ fresh = FALSE /\ oracle = <<>> /\ ndm = 0 /\ done = FALSE
Next == AddLin \/ AddBnd \/ AddAux \/ DoMath \/ Solve
Spec == Init /\ [][Next]_vars

ExportRec == [decl |-> decl, n |-> N, hist |-> hist,
              index |-> index, ciarray |-> ciarray,
              shapes |-> [p \in 1..Len(hist) |-> DualLen(p)],
              lo |-> [j \in 1..N |-> Lo(j)], hi |-> [j \in 1..N |-> Hi(j)],
              sliceOwn |-> SliceIsOwnRowsPred, shapesMatch |-> ShapesMatchPred,
              auxLoose |-> AuxLoose,
              certBest |-> oracle.certBest, primalBest |-> oracle.primalBest, boxBest |-> oracle.boxBest]
Export == (Results # {} \/ ~done) \/ PrintT(ToJson(ExportRec))

-----------------------------------------------------------------------------
(* (c) Validator.                                                                                  *)
(* res = [tid, sense, c, stmts, v, x, base]; a statement of stmts is a "lin" / "bnd" statement as  *)
(* above plus `dual': what dual() returned for it, flattened, times SC, rounded.  v = model.get()  *)
(* and x = the solution, times SC, rounded.  base = solver tolerance in scaled units.              *)

RN == Len(res.c)
RSg == IF res.sense = "min" THEN 1 ELSE -1
RLin == SelectSeq(res.stmts, IsLin)
RBnd == SelectSeq(res.stmts, IsBnd)
ExpLen(s) == IF IsLin(s) THEN Len(s.rows) ELSE Len(s.idx)
ShapesOK == \A k \in 1..Len(res.stmts) : Len(res.stmts[k].dual) = ExpLen(res.stmts[k])

\* rows in the property's orientation with their multipliers
RRows == Cat([k \in 1..Len(RLin) |->
              LET o == Orient(RLin[k]) IN [q \in 1..Len(o.a) |-> [a |-> o.a[q], b |-> o.b[q], eq |-> o.eq, y |-> RLin[k].dual[q]]]])
\* bound entries with their reduced costs
RBds == Cat([k \in 1..Len(RBnd) |->
             [q \in 1..Len(RBnd[k].idx) |-> [j |-> RBnd[k].idx[q], beta |-> RBnd[k].rhs[1], kind |-> RBnd[k].sense, y |-> RBnd[k].dual[q]]]])

Class(r, tol) == IF AbsV(r) <= tol THEN "ok" ELSE IF AbsV(r) <= 10 * tol THEN "gray" ELSE "bad"
Worst(cs) == IF InSeq(cs, "bad") THEN "bad" ELSE IF InSeq(cs, "gray") THEN "gray" ELSE "ok"

\* Stationarity: SC * c_j = sum_k pi_k a_kj + sum of the reduced costs of the bounds on entry j
StatResid(rows, bds, j) == SC * res.c[j] - SumS([k \in 1..Len(rows) |-> rows[k].y * rows[k].a[j]])
                                         - SumS([k \in 1..Len(bds) |-> IF bds[k].j = j THEN bds[k].y ELSE 0])
StatTol(rows, bds, j) == res.base + (SumS([k \in 1..Len(rows) |-> AbsV(rows[k].a[j])])
                                     + SumS([k \in 1..Len(bds) |-> IF bds[k].j = j THEN 1 ELSE 0]) + 1) \div 2

\* DualObjective: sum pi_k b_k + sum rho_j beta_j = v*
DObjResid(rows, bds) == res.v - SumS([k \in 1..Len(rows) |-> rows[k].y * rows[k].b]) - SumS([k \in 1..Len(bds) |-> bds[k].y * bds[k].beta])
DObjTol(rows, bds) == res.base * (1 + AbsV(res.v) \div SC)
                      + (SumS([k \in 1..Len(rows) |-> AbsV(rows[k].b)]) + SumS([k \in 1..Len(bds) |-> AbsV(bds[k].beta)]) + 2) \div 2

\* Signs: for min, <= rows and upper bounds <= 0, lower bounds >= 0, == rows free; reversed for max
SignExcess(kind, y) == IF kind = "eq" THEN 0 ELSE IF kind = "lb" THEN -RSg * y ELSE RSg * y       \* > 0: wrong side
SignOf(s) == Worst([q \in 1..Len(s.dual) |-> LET e == SignExcess(s.sense, s.dual[q]) IN IF e <= 0 THEN "ok" ELSE Class(e, res.base + 1)])

\* diagnostics: degeneracy of the returned vertex (more than n active constraints), binding user rows, value of the objective
ActTol(a) == 5 + SumS([j \in 1..Len(a) |-> AbsV(a[j])])
NActive(rows, bds) ==
    SumS([k \in 1..Len(rows) |-> IF rows[k].eq \/ AbsV(Dot(rows[k].a, res.x) - SC * rows[k].b) <= ActTol(rows[k].a) THEN 1 ELSE 0])
    + SumS([k \in 1..Len(bds) |-> IF AbsV(res.x[bds[k].j] - SC * bds[k].beta) <= 6 THEN 1 ELSE 0])
NNonzero(rows) == SumS([k \in 1..Len(rows) |-> IF AbsV(rows[k].y) > 10 * (res.base + 1) THEN 1 ELSE 0])
ObjOfX == Class(res.v - Dot(res.c, res.x), res.base * (1 + AbsV(res.v) \div SC) + (SumS([j \in 1..RN |-> AbsV(res.c[j])]) + 2) \div 2)

Verdict == IF ShapesOK
           THEN LET rows == RRows
                    bds == RBds
                    sr == [j \in 1..RN |-> StatResid(rows, bds, j)]
                    dr == DObjResid(rows, bds)
                IN [tid |-> res.tid, shapes |-> TRUE,
                    stationarity |-> Worst([j \in 1..RN |-> Class(sr[j], StatTol(rows, bds, j))]),
                    dualobj |-> Class(dr, DObjTol(rows, bds)),
                    signs |-> [k \in 1..Len(res.stmts) |-> SignOf(res.stmts[k])],
                    degenerate |-> NActive(rows, bds) > RN, nonzero |-> NNonzero(rows), objofx |-> ObjOfX,
                    statresid |-> sr, dobjresid |-> dr]
           ELSE [tid |-> res.tid, shapes |-> FALSE]
Validate == Results = {} \/ PrintT(ToJson(Verdict))
\* validator runs use INIT Init / NEXT Halt and the invariant ValidateRec: nothing in them mentions the (large) constant
\* Results after the initial states are computed (TLC re-evaluates a constant set at every use)
ValidateRec == PrintT(ToJson(Verdict))
Halt == FALSE /\ UNCHANGED vars
=============================================================================
