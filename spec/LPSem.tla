-------------------------------- MODULE LPSem --------------------------------
(***************************************************************************)
(* Denotational semantics of small mixed-integer linear programs, by brute *)
(* force: the program the USER wrote through rsome's API                   *)
(*     x_i integer ('I') with user bounds lb_i <= x_i <= ub_i,             *)
(*     x_i binary  ('B') with optional user bounds (x <= 0 fixes it),      *)
(*     rows  a.x {<=,>=,=} r,   min / max  c.x                             *)
(* and its exact optimum GridOpt over the finite grid of integer points.   *)
(* The state machine builds a program call by call (m.dvar, bounds,        *)
(* m.min/m.max, m.st); every state after the objective is a complete       *)
(* program that is exported together with its optimum.                     *)
(*                                                                         *)
(* Nothing here is transcribed from the library: this is the ghost side    *)
(* ("what the user declared") of property C07 for integer programs; the    *)
(* implementation side is the real code (lp.py do_math integrality vector  *)
(* 592-595, def_sol, the solver interfaces), bound by the replay.          *)
(* The oracle itself is checked by TLC: OptWitness, SenseSymmetry,         *)
(* RowsOnlyTighten.                                                        *)
(***************************************************************************)
EXTENDS Naturals, Integers, Sequences, FiniteSets, TLC, FiniteSetsExt, Json

CONSTANTS MaxVars,    \* at most this many variables (<= 3)
          MaxRows,    \* at most this many rows (<= 3)
          BoundSet,   \* user bounds are drawn from this set (subset of 0..3)
          ObjSet,     \* objective coefficients
          CoefSet,    \* row coefficients
          RhsSet,     \* right-hand sides
          ExportMod,  \* export the states whose checksum is 0 modulo ExportMod (1 = all)
          HashW,      \* Seq of >= 32 pseudo-random weights (seeded by the harness)
          KeepMod     \* [v2, v3, obj, row]: CONSTRAINT Keep thins the tree of programs pseudo-randomly:
                      \* a state reached by declaring the 2nd / 3rd variable, by the objective, by a row
                      \* is explored further iff its hash is 0 modulo the entry (1 = keep all)

None == 99            \* "the user gave no bound" (binaries only)

VARIABLES vt,     \* Seq of "I" | "B"
          lb, ub, \* Seq of user bounds (None = absent)
          phase,  \* "vars" | "rows"
          sense,  \* "min" | "max"
          c,      \* objective coefficients
          rows    \* Seq of [a, s, r]:  a.x s r,  s \in {"le","ge","eq"}

vars == <<vt, lb, ub, phase, sense, c, rows>>
NV == Len(vt)

Init == vt = <<>> /\ lb = <<>> /\ ub = <<>> /\ phase = "vars" /\ sense = "min" /\ c = <<>> /\ rows = <<>>

\* x = m.dvar(vtype='I'); m.st(x >= l, x <= u)       (l > u is a legal, infeasible, declaration)
DeclInt(l, u) ==
    /\ phase = "vars" /\ NV < MaxVars
    /\ vt' = Append(vt, "I") /\ lb' = Append(lb, l) /\ ub' = Append(ub, u)
    /\ UNCHANGED <<phase, sense, c, rows>>

\* b = m.dvar(vtype='B') with optional user bounds
DeclBin(l, u) ==
    /\ phase = "vars" /\ NV < MaxVars
    /\ vt' = Append(vt, "B") /\ lb' = Append(lb, l) /\ ub' = Append(ub, u)
    /\ UNCHANGED <<phase, sense, c, rows>>

SetObj(sn, cc) ==
    /\ phase = "vars" /\ NV >= 1
    /\ phase' = "rows" /\ sense' = sn /\ c' = cc
    /\ UNCHANGED <<vt, lb, ub, rows>>

AddRow(a, s, r) ==
    /\ phase = "rows" /\ Len(rows) < MaxRows
    /\ rows' = Append(rows, [a |-> a, s |-> s, r |-> r])
    /\ UNCHANGED <<vt, lb, ub, phase, sense, c>>

DoDeclInt == \E l \in BoundSet, u \in BoundSet : DeclInt(l, u)
DoDeclBin == \E l \in BoundSet \cup {None}, u \in BoundSet \cup {None} : DeclBin(l, u)
DoSetObj  == \E sn \in {"min", "max"} : \E cc \in [1..NV -> ObjSet] : SetObj(sn, cc)
DoAddRow  == \E a \in [1..NV -> CoefSet] : \E s \in {"le", "ge", "eq"} : \E r \in RhsSet : AddRow(a, s, r)

Next == DoDeclInt \/ DoDeclBin \/ DoSetObj \/ DoAddRow
Spec == Init /\ [][Next]_vars

-----------------------------------------------------------------------------
(* semantics *)
MaxI(x, y) == IF x >= y THEN x ELSE y
MinI(x, y) == IF x <= y THEN x ELSE y
Lo(i) == IF vt[i] = "B" THEN (IF lb[i] = None THEN 0 ELSE MaxI(0, lb[i])) ELSE lb[i]
Hi(i) == IF vt[i] = "B" THEN (IF ub[i] = None THEN 1 ELSE MinI(1, ub[i])) ELSE ub[i]
Top == Max(BoundSet \cup {1})
Points == {p \in [1..NV -> 0..Top] : \A i \in 1..NV : Lo(i) <= p[i] /\ p[i] <= Hi(i)}

RECURSIVE DotTo(_, _, _)
DotTo(a, p, n) == IF n = 0 THEN 0 ELSE a[n] * p[n] + DotTo(a, p, n - 1)
Dot(a, p) == DotTo(a, p, NV)
Sat(row, p) == CASE row.s = "le" -> Dot(row.a, p) <= row.r
                 [] row.s = "ge" -> Dot(row.a, p) >= row.r
                 [] row.s = "eq" -> Dot(row.a, p) = row.r
Feas(rs) == {p \in Points : \A k \in 1..Len(rs) : Sat(rs[k], p)}

GridOptOf(rs, sn, cc) ==
    LET F == Feas(rs) IN
    IF F = {} THEN [status |-> "infeasible", opt |-> 0, n |-> 0, arg |-> <<>>]
    ELSE LET vals == {Dot(cc, p) : p \in F}
             o == IF sn = "min" THEN Min(vals) ELSE Max(vals)
         IN [status |-> "optimal", opt |-> o, n |-> Cardinality(F),
             arg |-> CHOOSE p \in F : Dot(cc, p) = o]
GridOpt == GridOptOf(rows, sense, c)

-----------------------------------------------------------------------------
(* pseudo-random thinning of the tree of programs (the family is far too large to enumerate:
   ~7*10^4 declarations x 250 objectives x 3375^3 rows); used as CONSTRAINT, so TLC still
   generates every successor and explores a seeded sample of them *)
SCode(s) == CASE s = "le" -> 1 [] s = "ge" -> 2 [] s = "eq" -> 3
RECURSIVE FlatRows(_)
FlatRows(rs) == IF rs = <<>> THEN <<>>
                ELSE [i \in 1..NV |-> Head(rs).a[i] + 3] \o <<SCode(Head(rs).s), Head(rs).r + 7>> \o FlatRows(Tail(rs))
Flat == [i \in 1..NV |-> IF vt[i] = "I" THEN 1 ELSE 2] \o lb \o ub
        \o (IF phase = "rows" THEN <<IF sense = "min" THEN 1 ELSE 2>> \o [i \in 1..NV |-> c[i] + 3] ELSE <<>>)
        \o FlatRows(rows)
RECURSIVE HashTo(_, _)
HashTo(f, n) == IF n = 0 THEN 0 ELSE (f[n] * HashW[n] * (n + 1) + HashTo(f, n - 1)) % 1000003
Hash == HashTo(Flat, Len(Flat))
Sampled == LET m == IF phase = "vars" THEN (IF NV <= 1 THEN 1 ELSE IF NV = 2 THEN KeepMod[1] ELSE KeepMod[2])
                 ELSE IF rows = <<>> THEN KeepMod[3] ELSE KeepMod[4]
        IN /\ Hash % m = 0
           \* programs without any feasible point are the majority: keep one in eight of them
           /\ (phase = "rows" /\ GridOpt.status = "infeasible") => Hash % (8 * m) = 0

Keep == Sampled       \* named in the cfg as CONSTRAINT (TLC does not let invariants refer to that name)

-----------------------------------------------------------------------------
(* the oracle is checked, too (TLC evaluates invariants also on the states CONSTRAINT Keep discards:
   hence the guards) *)
TypeOK == /\ phase \in {"vars", "rows"} /\ sense \in {"min", "max"}
          /\ Len(lb) = NV /\ Len(ub) = NV /\ NV <= MaxVars /\ Len(rows) <= MaxRows
          /\ phase = "rows" => Len(c) = NV

\* the reported optimum is attained at a feasible grid point and no feasible point is better
OptWitness ==
    (phase = "rows" /\ Sampled) =>
        LET g == GridOpt IN
        IF g.status = "infeasible" THEN \A p \in Points : \E k \in 1..Len(rows) : ~Sat(rows[k], p)
        ELSE /\ g.arg \in Points /\ \A k \in 1..Len(rows) : Sat(rows[k], g.arg) /\ Dot(c, g.arg) = g.opt
             /\ \A p \in Feas(rows) : IF sense = "min" THEN Dot(c, p) >= g.opt ELSE Dot(c, p) <= g.opt

\* max c.x = - min (-c).x
SenseSymmetry ==
    (phase = "rows" /\ Sampled) =>
        LET g == GridOpt
            h == GridOptOf(rows, IF sense = "min" THEN "max" ELSE "min", [i \in 1..NV |-> 0 - c[i]])
        IN g.status = h.status /\ g.opt = 0 - h.opt

\* a binary takes values in {0,1} whatever the user bounds
BinaryDomain == Sampled => \A p \in Points : \A i \in 1..NV : vt[i] = "B" => p[i] \in {0, 1}

\* adding a row never improves the optimum and never makes an infeasible program feasible
\* (the step from the program without its last row, written as a state predicate)
RowsOnlyTighten ==
    (phase = "rows" /\ Sampled /\ rows # <<>>) =>
        LET g == GridOptOf(SubSeq(rows, 1, Len(rows) - 1), sense, c)
            h == GridOpt
        IN /\ g.status = "infeasible" => h.status = "infeasible"
           /\ (g.status = "optimal" /\ h.status = "optimal") =>
                  IF sense = "min" THEN h.opt >= g.opt ELSE h.opt <= g.opt

-----------------------------------------------------------------------------
(* export *)
RECURSIVE RowSum(_)
RowSum(rs) == IF rs = <<>> THEN 0 ELSE DotTo(Head(rs).a, [i \in 1..NV |-> i + 2], NV) + 5 * Head(rs).r + RowSum(Tail(rs))
CheckSum == DotTo(c, [i \in 1..NV |-> i], NV) + DotTo(lb, [i \in 1..NV |-> 3 * i], NV) + DotTo(ub, [i \in 1..NV |-> 7], NV)
            + RowSum(rows) + Len(rows)
ExportRec == [vt |-> vt, lb |-> lb, ub |-> ub, sense |-> sense, c |-> c, rows |-> rows, grid |-> GridOpt,
              binbound |-> \E i \in 1..NV : vt[i] = "B" /\ (lb[i] # None \/ ub[i] # None)]
Export == (phase = "rows" /\ Sampled /\ CheckSum % ExportMod = 0) => PrintT(ToJson(ExportRec))
=============================================================================
