-------------------------------- MODULE LPSem --------------------------------
(***************************************************************************)
(* Denotational semantics of small mixed-integer linear programs, by brute *)
(* force: the program the USER wrote through rsome's API                   *)
(*     x_i integer ('I') with user bounds lb_i <= x_i <= ub_i,             *)
(*     x_i binary  ('B') with optional user bounds (x <= 0 fixes it),      *)
(*     rows  a.x {<=,>=,=} r,   min / max  c.x                             *)
(* and its exact optimum GridOpt over the finite grid of integer points.   *)
(* The state machine builds a program call by call (m.dvar + bounds,       *)
(* m.min/m.max, m.st); every state after the objective is a complete       *)
(* program that is exported together with its optimum.                     *)
(*                                                                         *)
(* Nothing here is transcribed from the library: this is the ghost side    *)
(* ("what the user declared") of property C07 for integer programs; the    *)
(* implementation side is the real code (lp.py do_math integrality vector  *)
(* 592-595, def_sol, the solver interfaces), bound by the replay.          *)
(* The oracle itself is checked by TLC: OptWitness, SenseSymmetry,         *)
(* BinaryDomain, RowsOnlyTighten.                                          *)
(*                                                                         *)
(* The full family (3 variables: ~7*10^4 declarations x 250 objectives x   *)
(* 3375^3 rows) cannot be enumerated.  Fan = 0 enumerates every argument   *)
(* of an action (small constants); Fan > 0 lets each state take only Fan   *)
(* arguments, chosen by a hash of the state and the seeded weights HashW:  *)
(* TLC then enumerates a pseudo-random subtree of the family completely.   *)
(***************************************************************************)
EXTENDS Naturals, Integers, Sequences, FiniteSets, TLC, FiniteSetsExt, Json

CONSTANTS MaxVars,    \* at most this many variables (<= 3)
          MaxRows,    \* at most this many rows (<= 3)
          BoundHi,    \* user bounds are drawn from 0..BoundHi
          ObjLo, ObjHi,     \* objective coefficients ObjLo..ObjHi
          CoefLo, CoefHi,   \* row coefficients
          RhsLo, RhsHi,     \* right-hand sides
          Fan,        \* [int, bin, obj, row]: arguments taken per state and action (0 = all)
          HashW,      \* Seq of 48 pseudo-random weights in 1..996 (seeded by the harness)
          ThinInfeasible  \* keep one in ThinInfeasible of the programs without feasible point

None == 99            \* "the user gave no bound" (binaries only)

VARIABLES vt,     \* Seq of "I" | "B"
          lb, ub, \* Seq of user bounds (None = absent)
          phase,  \* "vars" | "rows"
          sense,  \* "min" | "max"
          c,      \* objective coefficients
          rows    \* Seq of [a, s, r]:  a.x s r,  s \in {"le","ge","eq"}

vars == <<vt, lb, ub, phase, sense, c, rows>>
NV == Len(vt)

Init == vt = <<>> /\ lb = <<>> /\ ub = <<>> /\ phase = "vars" /\ sense = "min" /\ c = <<>> /\ rows = <<>>

-----------------------------------------------------------------------------
(* hash of the state; ArgChoices(n, fan, salt): which of the n possible arguments this state takes *)
SCode(s) == CASE s = "le" -> 1 [] s = "ge" -> 2 [] s = "eq" -> 3
RECURSIVE FlatRows(_)
FlatRows(rs) == IF rs = <<>> THEN <<>>
                ELSE [i \in 1..NV |-> Head(rs).a[i] + 3] \o <<SCode(Head(rs).s), Head(rs).r + 7>> \o FlatRows(Tail(rs))
Flat == [i \in 1..NV |-> IF vt[i] = "I" THEN 1 ELSE 2] \o lb \o ub
        \o (IF phase = "rows" THEN <<IF sense = "min" THEN 1 ELSE 2>> \o [i \in 1..NV |-> c[i] + 3] ELSE <<>>)
        \o FlatRows(rows)
RECURSIVE HashTo(_, _)
HashTo(f, n) == IF n = 0 THEN 17 ELSE (f[n] * HashW[n] * (n + 1) + 31 * HashTo(f, n - 1)) % 1000003
Hash == HashTo(Flat, Len(Flat))
Pick(j, n, salt) == ((Hash + salt) * HashW[40 + j] + HashW[j] * (j + salt)) % n
ArgChoices(n, fan, salt) == IF fan = 0 THEN 0..(n - 1) ELSE {Pick(j, n, salt) : j \in 1..fan}

-----------------------------------------------------------------------------
(* the API calls *)
\* x = m.dvar(vtype='I'); m.st(x >= l, x <= u)       (l > u is a legal, infeasible, declaration)
DeclInt(l, u) ==
    /\ phase = "vars" /\ NV < MaxVars
    /\ vt' = Append(vt, "I") /\ lb' = Append(lb, l) /\ ub' = Append(ub, u)
    /\ UNCHANGED <<phase, sense, c, rows>>

\* b = m.dvar(vtype='B') with optional user bounds
DeclBin(l, u) ==
    /\ phase = "vars" /\ NV < MaxVars
    /\ vt' = Append(vt, "B") /\ lb' = Append(lb, l) /\ ub' = Append(ub, u)
    /\ UNCHANGED <<phase, sense, c, rows>>

SetObj(sn, cc) ==
    /\ phase = "vars" /\ NV >= 1
    /\ phase' = "rows" /\ sense' = sn /\ c' = cc
    /\ UNCHANGED <<vt, lb, ub, rows>>

AddRow(a, s, r) ==
    /\ phase = "rows" /\ Len(rows) < MaxRows
    /\ rows' = Append(rows, [a |-> a, s |-> s, r |-> r])
    /\ UNCHANGED <<vt, lb, ub, phase, sense, c>>

(* decoding an argument number into the argument *)
RECURSIVE PowN(_, _)
PowN(b, n) == IF n = 0 THEN 1 ELSE b * PowN(b, n - 1)
Digits(k, base, lo) == [i \in 1..NV |-> lo + ((k \div PowN(base, i - 1)) % base)]
NB == BoundHi + 1
BinBound(k) == IF k = NB THEN None ELSE k            \* 0..BoundHi, or absent
NObj == ObjHi - ObjLo + 1
NCoef == CoefHi - CoefLo + 1
NRhs == RhsHi - RhsLo + 1
SenseOf(k) == CASE k = 0 -> "le" [] k = 1 -> "ge" [] k = 2 -> "eq"

DoDeclInt == \E k \in ArgChoices(NB * NB, Fan[1], 1) : DeclInt(k % NB, k \div NB)
DoDeclBin == \E k \in ArgChoices((NB + 1) * (NB + 1), Fan[2], 2) : DeclBin(BinBound(k % (NB + 1)), BinBound(k \div (NB + 1)))
DoSetObj  == \E k \in ArgChoices(2 * PowN(NObj, NV), Fan[3], 3) :
                 SetObj(IF k % 2 = 0 THEN "min" ELSE "max", Digits(k \div 2, NObj, ObjLo))
DoAddRow  == \E k \in ArgChoices(3 * NRhs * PowN(NCoef, NV), Fan[4], 4) :
                 AddRow(Digits(k \div (3 * NRhs), NCoef, CoefLo), SenseOf(k % 3), RhsLo + ((k \div 3) % NRhs))

Next == DoDeclInt \/ DoDeclBin \/ DoSetObj \/ DoAddRow
Spec == Init /\ [][Next]_vars

-----------------------------------------------------------------------------
(* semantics *)
MaxI(x, y) == IF x >= y THEN x ELSE y
MinI(x, y) == IF x <= y THEN x ELSE y
Lo(i) == IF vt[i] = "B" THEN (IF lb[i] = None THEN 0 ELSE MaxI(0, lb[i])) ELSE lb[i]
Hi(i) == IF vt[i] = "B" THEN (IF ub[i] = None THEN 1 ELSE MinI(1, ub[i])) ELSE ub[i]
Top == MaxI(BoundHi, 1)
Points == {p \in [1..NV -> 0..Top] : \A i \in 1..NV : Lo(i) <= p[i] /\ p[i] <= Hi(i)}

RECURSIVE DotTo(_, _, _)
DotTo(a, p, n) == IF n = 0 THEN 0 ELSE a[n] * p[n] + DotTo(a, p, n - 1)
Dot(a, p) == DotTo(a, p, NV)
Sat(row, p) == CASE row.s = "le" -> Dot(row.a, p) <= row.r
                 [] row.s = "ge" -> Dot(row.a, p) >= row.r
                 [] row.s = "eq" -> Dot(row.a, p) = row.r
Feas(rs) == {p \in Points : \A k \in 1..Len(rs) : Sat(rs[k], p)}

GridOptOf(rs, sn, cc) ==
    LET F == Feas(rs) IN
    IF F = {} THEN [status |-> "infeasible", opt |-> 0, n |-> 0, arg |-> <<>>]
    ELSE LET vals == {Dot(cc, p) : p \in F}
             o == IF sn = "min" THEN Min(vals) ELSE Max(vals)
         IN [status |-> "optimal", opt |-> o, n |-> Cardinality(F),
             arg |-> CHOOSE p \in F : Dot(cc, p) = o]
GridOpt == GridOptOf(rows, sense, c)

\* CONSTRAINT: programs without a feasible point are the majority; explore one in ThinInfeasible
Keep == \/ ThinInfeasible <= 1
        \/ Hash % ThinInfeasible = 0
        \/ IF phase = "vars" THEN Points # {} ELSE Feas(rows) # {}

-----------------------------------------------------------------------------
(* the oracle is checked, too *)
TypeOK == /\ phase \in {"vars", "rows"} /\ sense \in {"min", "max"}
          /\ Len(lb) = NV /\ Len(ub) = NV /\ NV <= MaxVars /\ Len(rows) <= MaxRows
          /\ phase = "rows" => Len(c) = NV

\* the reported optimum is attained at a feasible grid point and no feasible point is better
OptWitness ==
    phase = "rows" =>
        LET g == GridOpt IN
        IF g.status = "infeasible" THEN \A p \in Points : \E k \in 1..Len(rows) : ~Sat(rows[k], p)
        ELSE /\ g.arg \in Points /\ \A k \in 1..Len(rows) : Sat(rows[k], g.arg) /\ Dot(c, g.arg) = g.opt
             /\ \A p \in Feas(rows) : IF sense = "min" THEN Dot(c, p) >= g.opt ELSE Dot(c, p) <= g.opt

\* max c.x = - min (-c).x
SenseSymmetry ==
    phase = "rows" =>
        LET g == GridOpt
            h == GridOptOf(rows, IF sense = "min" THEN "max" ELSE "min", [i \in 1..NV |-> 0 - c[i]])
        IN g.status = h.status /\ g.opt = 0 - h.opt

\* a binary takes values in {0,1} whatever the user bounds
BinaryDomain == \A p \in Points : \A i \in 1..NV : vt[i] = "B" => p[i] \in {0, 1}

\* adding a row never improves the optimum and never makes an infeasible program feasible
RowsOnlyTighten ==
    [][(phase = "rows" /\ phase' = "rows") =>
          LET g == GridOpt
              h == GridOptOf(rows', sense', c')
          IN /\ g.status = "infeasible" => h.status = "infeasible"
             /\ (g.status = "optimal" /\ h.status = "optimal") =>
                    IF sense = "min" THEN h.opt >= g.opt ELSE h.opt <= g.opt]_vars

-----------------------------------------------------------------------------
(* export (TLC evaluates invariants also on the states CONSTRAINT Keep discards: hence the guard;
   the cfg names Keep, so the invariant has to spell the predicate out under another name) *)
Explored == \/ ThinInfeasible <= 1
            \/ Hash % ThinInfeasible = 0
            \/ Feas(rows) # {}
ExportRec == [vt |-> vt, lb |-> lb, ub |-> ub, sense |-> sense, c |-> c, rows |-> rows, grid |-> GridOpt,
              binbound |-> \E i \in 1..NV : vt[i] = "B" /\ (lb[i] # None \/ ub[i] # None)]
Export == (phase = "rows" /\ Explored) => PrintT(ToJson(ExportRec))
=============================================================================
