------------------------------ MODULE StdForm ------------------------------
(***************************************************************************)
(* Standard forms and LP dualisation (C08; the same dual is what the robust *)
(* counterpart is built from).                                             *)
(*                                                                         *)
(* A program P = [lb, ub, A, sense, b, c]: minimise c.x subject to         *)
(* A[i].x <= b[i] (sense 0) or = b[i] (sense 1), lb <= x <= ub.            *)
(* Infinite bounds are the sentinels -INF / INF.                           *)
(*                                                                         *)
(* DualLP transcribes lp.py:618-690 branch by branch (bound rows for       *)
(* finite non-zero bounds, the extra equality row of fixed columns, free / *)
(* sign-restricted / non-positive columns, equality rows).                 *)
(*                                                                         *)
(* Ideal (what "a true dual" means, decided exactly by TLC on lattices):   *)
(*   WeakDuality: for all lattice x feasible for P and lattice y feasible  *)
(*   for D: c.x + dobj.y >= 0   (D minimises dobj.y; optimal values are    *)
(*   negatives of each other, so every dual value bounds every primal one) *)
(*   checked additively: PrimalGridMin + DualGridMin >= 0.                 *)
(*   DualNotEmptyWhenPrimalBounded is left to the solver-based value check *)
(*   of the harness (primal + dual = 0).                                   *)
(***************************************************************************)
EXTENDS Integers, Sequences, FiniteSets, TLC, FiniteSetsExt, SequencesExt, Json

CONSTANTS NC,        \* user columns (the objective column x0 is added in front)
          Patterns,  \* bound patterns (ids) available per column
          RowCoefs,  \* set of coefficient vectors (tuples of length NC) for rows
          ObjCoefs,  \* set of objective vectors (tuples of length NC)
          Rhs,       \* set of right-hand sides
          MaxRows,
          XL,        \* primal lattice radius
          YL,        \* dual lattice radius
          FixedRowFixed, \* TRUE: transcribe the repaired sign of the fixed-variable row
          Results    \* validator mode: set of [tid, P, D] records taken from the real library; {} otherwise

INF == 1000000

\* bound patterns of DESIGN.md appendix C: <<lb, ub>>
Pattern(k) ==
    CASE k = 1  -> <<-INF, INF>>
      [] k = 2  -> <<0, INF>>
      [] k = 3  -> <<-INF, 0>>
      [] k = 4  -> <<1, INF>>
      [] k = 5  -> <<-1, INF>>
      [] k = 6  -> <<-INF, 2>>
      [] k = 7  -> <<-1, 2>>
      [] k = 8  -> <<0, 2>>
      [] k = 9  -> <<-2, 0>>
      [] k = 10 -> <<1, 1>>
      [] k = 11 -> <<0, 0>>
      [] k = 12 -> <<-INF, -1>>
      [] k = 13 -> <<-2, -1>>

-----------------------------------------------------------------------------
(* linear algebra on sequences *)
Dot(u, v) == LET n == Len(u) IN
             LET RECURSIVE S(_)
                 S(k) == IF k = 0 THEN 0 ELSE u[k] * v[k] + S(k - 1)
             IN S(n)
Unit(n, j, val) == [k \in 1..n |-> IF k = j THEN val ELSE 0]
IdxSeq(n, P(_)) == SelectSeq([k \in 1..n |-> k], P)      \* ascending indices satisfying P

-----------------------------------------------------------------------------
(* Transcription of lp.Model.do_math(primal=False) *)

DualLP(P) ==
    LET nv == Len(P.lb)
        iub == IdxSeq(nv, LAMBDA j : P.ub[j] # 0 /\ P.ub[j] # INF)
        ilb == IdxSeq(nv, LAMBDA j : P.lb[j] # 0 /\ P.lb[j] # -INF)
        ifx == IdxSeq(nv, LAMBDA j : P.lb[j] = P.ub[j])
        rowsA == P.A \o [k \in 1..Len(iub) |-> Unit(nv, iub[k], 1)]
                     \o [k \in 1..Len(ilb) |-> Unit(nv, ilb[k], -1)]
                     \o [k \in 1..Len(ifx) |-> Unit(nv, ifx[k], -1)]
        rowsB == P.b \o [k \in 1..Len(iub) |-> P.ub[iub[k]]]
                     \o [k \in 1..Len(ilb) |-> -P.lb[ilb[k]]]
                     \o [k \in 1..Len(ifx) |-> IF FixedRowFixed THEN -P.lb[ifx[k]] ELSE P.lb[ifx[k]]]
        rowsS == P.sense \o [k \in 1..Len(iub) |-> 0] \o [k \in 1..Len(ilb) |-> 0] \o [k \in 1..Len(ifx) |-> 1]
        nd == Len(rowsA)
        free(j) == P.lb[j] # 0 /\ P.ub[j] # 0
        neg(j) == P.ub[j] = 0
    IN [lb |-> [i \in 1..nd |-> -INF],
        ub |-> [i \in 1..nd |-> IF rowsS[i] = 1 THEN INF ELSE 0],
        A |-> [j \in 1..nv |-> [i \in 1..nd |-> IF neg(j) THEN -rowsA[i][j] ELSE rowsA[i][j]]],
        sense |-> [j \in 1..nv |-> IF free(j) THEN 1 ELSE 0],
        b |-> [j \in 1..nv |-> IF neg(j) THEN -P.c[j] ELSE P.c[j]],
        c |-> [i \in 1..nd |-> -rowsB[i]],
        q |-> <<>>]

-----------------------------------------------------------------------------
(* Semantics on lattices *)

InBounds(P, x) == \A j \in 1..Len(x) : x[j] >= P.lb[j] /\ x[j] <= P.ub[j]
RowsHold(P, x) == \A i \in 1..Len(P.A) :
                     IF P.sense[i] = 1 THEN Dot(P.A[i], x) = P.b[i] ELSE Dot(P.A[i], x) <= P.b[i]
\* second-order cones (index lists, head first): exact in squares on integer points
InCones(P, x) == \A k \in 1..Len(P.q) :
                    LET qc == P.q[k] IN
                    /\ x[qc[1]] >= 0
                    /\ x[qc[1]] * x[qc[1]] >= Dot([i \in 1..(Len(qc) - 1) |-> x[qc[i + 1]]],
                                                  [i \in 1..(Len(qc) - 1) |-> x[qc[i + 1]]])
FeasibleAt(P, x) == InBounds(P, x) /\ RowsHold(P, x) /\ InCones(P, x)

RECURSIVE Lattice(_, _)
Lattice(n, r) == IF n = 0 THEN {<<>>} ELSE {Append(s, v) : s \in Lattice(n - 1, r), v \in (-r)..r}

GridVals(P, r) == {Dot(P.c, x) : x \in {x \in Lattice(Len(P.lb), r) : FeasibleAt(P, x)}}

\* every lattice-feasible dual value bounds every lattice-feasible primal value
WeakDualityOnR(P, D, xl, yl) ==
    LET pv == GridVals(P, xl)
        dv == GridVals(D, yl)
    IN (pv # {} /\ dv # {}) => Min(pv) + Min(dv) >= 0
WeakDualityOn(P, D) ==
    LET pv == GridVals(P, XL)
        dv == GridVals(D, IF Len(D.lb) > 6 THEN 1 ELSE YL)   \* keep the dual lattice below ~20k points
    IN (pv # {} /\ dv # {}) => Min(pv) + Min(dv) >= 0

-----------------------------------------------------------------------------
(* Family: x0 free with cost 1, row 1 is the epigraph x0 >= obj.x, then user rows *)

UserRows == UNION {[1..n -> [coef : RowCoefs, sense : {0, 1}, rhs : Rhs]] : n \in 0..MaxRows}

Build(pats, obj, rows) ==
    [lb |-> <<-INF>> \o [j \in 1..NC |-> Pattern(pats[j])[1]],
     ub |-> <<INF>> \o [j \in 1..NC |-> Pattern(pats[j])[2]],
     A |-> << <<-1>> \o obj >> \o [i \in 1..Len(rows) |-> <<0>> \o rows[i].coef],
     sense |-> <<0>> \o [i \in 1..Len(rows) |-> rows[i].sense],
     b |-> <<0>> \o [i \in 1..Len(rows) |-> rows[i].rhs],
     c |-> <<1>> \o [j \in 1..NC |-> 0],
     q |-> <<>>]

Decls == [pats : [1..NC -> Patterns], obj : ObjCoefs, rows : UserRows]

VARIABLES decl, res
vars == <<decl, res>>

Init == IF Results = {} THEN res = [tid |-> 0] /\ decl \in Decls
        ELSE res \in Results /\ decl = [pats |-> <<>>, obj |-> <<>>, rows |-> <<>>]
Next == UNCHANGED vars
Spec == Init /\ [][Next]_vars

P0 == Build(decl.pats, decl.obj, decl.rows)

\* spec-level verdict: the transcribed dual is a valid dual of every program of the family
TranscriptionWeakDuality == res.tid # 0 \/ WeakDualityOn(P0, DualLP(P0))

Export == res.tid # 0 \/
          PrintT(ToJson([decl |-> decl, P |-> P0, D |-> DualLP(P0),
                         primalGrid |-> LET v == GridVals(P0, XL) IN IF v = {} THEN <<>> ELSE <<Min(v)>>]))

-----------------------------------------------------------------------------
(* Validator mode: the real primal/dual standard forms (integer data) *)

SameProgram(D1, D2) == /\ D1.A = D2.A /\ D1.b = D2.b /\ D1.c = D2.c
                       /\ D1.sense = D2.sense /\ D1.lb = D2.lb /\ D1.ub = D2.ub

Verdict == [tid |-> res.tid,
            weak |-> WeakDualityOnR(res.P, res.D, res.xl, res.yl),      \* ideal
            transcription |-> (res.P.q # <<>>) \/ SameProgram(DualLP(res.P), res.D)]  \* LP transcription conformance

Validate == res.tid = 0 \/ PrintT(ToJson(Verdict))
=============================================================================
