------------------------------ MODULE Interleave ------------------------------
(***************************************************************************)
(* C17 (last sentence), C09, C19: "building or solving one model never     *)
(* changes the results of another model in the same process", for every    *)
(* PAIR of model classes (lp, socp, gcp, ro, dro) and EVERY interleaving   *)
(* of their build / formulate / solve / extend / dualise / re-solve steps. *)
(*                                                                         *)
(* Lifecycle.tla interleaves two ro models with a coarse second model,     *)
(* Misuse.tla is a table of single misuses.  This module is the schedule   *)
(* space: each model runs a fixed script (its program order is kept), the  *)
(* scheduler picks which model moves.                                      *)
(*                                                                         *)
(* Implementation shaped: what two models of one process can share in      *)
(* rsome is written down as explicit state -                               *)
(*   priv[m]   the model object graph (declarations, caches, solution);    *)
(*   defaults  the mutable default arguments of the solve() functions      *)
(*             (params={} is ONE dictionary per interface for the whole    *)
(*             process: def_sol, ort/grb/eco solve);                       *)
(*   udata     the caller's numeric arrays, handed to BOTH models;         *)
(*   classes   class-level attributes of the shared base classes           *)
(*             (lp.Model, lp.Vars, Affine ...) - no step may write them.   *)
(* Ghost: decl[m] = how many script steps of m were declared, and          *)
(* seen[m] = the results m reported at its last solve.                     *)
(***************************************************************************)
EXTENDS Integers, Sequences, FiniteSets, TLC, Json

CONSTANTS Fronts,      \* model classes
          Steps,       \* the script, a sequence of step names
          Pairs        \* set of <<front of A, front of B>> to explore

Slots == {"A", "B"}
Other(m) == IF m = "A" THEN "B" ELSE "A"
NSteps == Len(Steps)
SolveSteps == {i \in 1..NSteps : Steps[i] \in {"solve1", "solve2"}}
MutSteps == {i \in 1..NSteps : Steps[i] \in {"decl", "cons1", "obj", "cons2"}}

VARIABLES front,     \* [Slots -> Fronts]
          pc,        \* [Slots -> 0..NSteps]  steps done
          priv,      \* [Slots -> [gen: declaration generation, formGen: generation of the cached primal, dualGen, solGen]]
          defaults,  \* contents of the shared default-parameter dictionaries (ideal: always empty)
          udata,     \* version of the user's arrays (ideal: always 0)
          classes,   \* version of class-level state (ideal: always 0)
          sched      \* history: the schedule so far
vars == <<front, pc, priv, defaults, udata, classes, sched>>

Init == /\ front \in {f \in [Slots -> Fronts] : <<f["A"], f["B"]>> \in Pairs}
        /\ pc = [m \in Slots |-> 0]
        /\ priv = [m \in Slots |-> [gen |-> 0, formGen |-> -1, dualGen |-> -1, solGen |-> -1]]
        /\ defaults = {} /\ udata = 0 /\ classes = 0 /\ sched = <<>>

\* one script step of model m: touches priv[m] only
Step(m) ==
    /\ pc[m] < NSteps
    /\ LET i == pc[m] + 1  s == Steps[i]  p == priv[m] IN
       /\ pc' = [pc EXCEPT ![m] = i]
       /\ priv' = [priv EXCEPT ![m] =
             CASE i \in MutSteps -> [p EXCEPT !.gen = @ + 1]                                  \* st / dvar / min: caches become stale
               [] s \in {"solve1", "solve2"} -> [p EXCEPT !.formGen = p.gen, !.solGen = p.gen] \* do_math() inside solve, then the solution
               [] s = "dual" -> [p EXCEPT !.dualGen = p.gen]
               [] OTHER -> p]
       /\ sched' = Append(sched, m)
    /\ UNCHANGED <<front, defaults, udata, classes>>

Next == \E m \in Slots : Step(m)
Spec == Init /\ [][Next]_vars

TypeOK == /\ pc \in [Slots -> 0..NSteps] /\ udata = 0 /\ classes = 0 /\ defaults = {}

\* C17: a step of one model leaves the other model's object graph alone ...
Isolation == [][\A m \in Slots : Step(m) => priv'[Other(m)] = priv[Other(m)]]_vars
\* ... and nothing process-wide is written (so a model's results are a function of its own declarations: C09 / C19)
SharedUntouched == [][defaults' = defaults /\ udata' = udata /\ classes' = classes]_vars
\* every solve serves the current declaration, whatever the other model did in between
SolveCurrent == \A m \in Slots : (pc[m] \in SolveSteps) => priv[m].solGen = priv[m].gen
\* the script is a valid life cycle: a dual is requested only after a solve, results exist at the end
Done == \A m \in Slots : pc[m] = NSteps

Export == Done => PrintT(ToJson([fa |-> front["A"], fb |-> front["B"], sched |-> sched]))
=============================================================================
