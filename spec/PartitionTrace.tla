--------------------------- MODULE PartitionTrace ---------------------------
(***************************************************************************)
(* Trace validation (code -> spec) for Partition.tla: traces recorded by   *)
(* harness/tracer.py from the REAL library (random API programs that TLC   *)
(* did not generate; the repository's own dro tests) are replayed against  *)
(* the specification's actions.  One behaviour per trace (tid); every      *)
(* event must be explained by the corresponding action of Partition with   *)
(* the logged arguments, the logged outcome and the logged projected state *)
(* (ordered event lists, dependency mask); the ideal invariants are        *)
(* evaluated in every state of every trace.                                *)
(***************************************************************************)
EXTENDS Partition

CONSTANT Traces       \* sequence of traces; a trace is a sequence of event records

VARIABLES tid, l
tvars == <<vars, tid, l>>

Ev == Traces[tid][l]
\* TLCEval forces evaluation NOW: a lazily built set would otherwise be evaluated when the successor state is
\* fingerprinted, with l already advanced
SetOfSeq(s) == TLCEval({s[i] : i \in 1..Len(s)})

TraceInit == Init /\ tid \in 1..Len(Traces) /\ l = 1
Consume == l <= Len(Traces[tid]) /\ l' = l + 1 /\ UNCHANGED tid

TEvents == /\ Consume /\ Ev.ev = "adapt_events" /\ ~broken[Ev.v]
           /\ AdaptEvents(TLCEval(Ev.v), TLCEval(Ev.E))
           /\ out' = Ev.out
           /\ ea'[Ev.v] = Ev.ea

TSlice == /\ Consume /\ Ev.ev = "mk_slice"
          /\ MkSlice(TLCEval(Ev.v), SetOfSeq(Ev.idx))

ObservedMask(v) == [i \in 1..Sizes[v] |-> SetOfSeq(Ev.mask[i])]
TAffine == /\ Consume /\ Ev.ev = "adapt_affine"
           /\ IF Ev.sid > 0 THEN AdaptAffineSlice(TLCEval(Ev.sid), SetOfSeq(Ev.comps))
              ELSE IF SetOfSeq(Ev.idx) = 1..Sizes[Ev.v] THEN AdaptAffineVar(TLCEval(Ev.v), SetOfSeq(Ev.comps))
              ELSE AdaptAffineFresh(TLCEval(Ev.v), SetOfSeq(Ev.idx), SetOfSeq(Ev.comps))
           /\ out' = Ev.out
           \* (not MaskOf(Ev.v)': the prime would also apply to Ev, i.e. to l)
           /\ (IF pref'[Ev.v] = 0 THEN EmptyMat(Ev.v) ELSE heap'[pref'[Ev.v]]) = ObservedMask(Ev.v)

\* after an evtadapt that raised midway the specification leaves the variable's behaviour undefined
TUndefined == /\ Consume /\ Ev.ev = "adapt_events" /\ broken[Ev.v]
              /\ UNCHANGED vars

\* the formulation's column map was (re)built: no change of the declaration state; the logged map is judged by ColMapOK
TRuleVar == /\ Consume /\ Ev.ev = "rule_var"
            /\ UNCHANGED vars

TraceNext == TEvents \/ TSlice \/ TAffine \/ TUndefined \/ TRuleVar
TraceSpec == TraceInit /\ [][TraceNext]_tvars

\* C13 on the logged column map (code -> spec): for every traced variable, two scenarios share the static column of an
\* entry / the slope column of (entry, component) exactly when the declaration state TLC tracked puts them in the
\* same event; slopes exist exactly for the declared dependencies; no two distinct things share a column
DeclPairs(v) == {p \in (1..Sizes[v]) \X Comp : p[2] \in declMask[v][p[1]]}
RuleVarOK(e) ==
    LET TV == {v \in 1..Len(e.static) : ~broken[v]} IN
    /\ \A v \in TV :
          /\ \A s, t \in Scen : \A i \in 1..Sizes[v] :
                (e.static[v][s + 1][i] = e.static[v][t + 1][i]) <=> SameEvent(ea[v], s, t)
          /\ \A s \in Scen : {<<q[1], q[2]>> : q \in Rng(e.slopes[v][s + 1])} = DeclPairs(v)
          /\ \A s, t \in Scen : \A k \in 1..Len(e.slopes[v][s + 1]) :
                (e.slopes[v][s + 1][k][3] = e.slopes[v][t + 1][k][3]) <=> SameEvent(ea[v], s, t)
    /\ \A v, w \in TV : \A s, t \in Scen :
          /\ \A i \in 1..Sizes[v], j \in 1..Sizes[w] :
                (e.static[v][s + 1][i] = e.static[w][t + 1][j]) => (v = w /\ i = j)
          /\ \A k \in 1..Len(e.slopes[v][s + 1]), m \in 1..Len(e.slopes[w][t + 1]) :
                (e.slopes[v][s + 1][k][3] = e.slopes[w][t + 1][m][3]) => (v = w /\ k = m)
          /\ \A i \in 1..Sizes[v], m \in 1..Len(e.slopes[w][t + 1]) : e.static[v][s + 1][i] # e.slopes[w][t + 1][m][3]
ColMapOK == (l > 1 /\ Traces[tid][l - 1].ev = "rule_var" /\ Traces[tid][l - 1].out = "ok") => RuleVarOK(Traces[tid][l - 1])

Accepted == (l = Len(Traces[tid]) + 1) => PrintT(<<"ACCEPT", tid>>)
Progress == PrintT(<<"AT", tid, l>>)
\* which ideal clause fails, as one short token per clause (a long record would be wrapped over several output lines)
IdealCode == (IF IsPartition /\ SharedIffSameEvent /\ ColsInjective THEN "" ELSE "partition ")
             \o (IF MaskExact THEN "" ELSE "mask ") \o (IF IllegalRaises THEN "" ELSE "illegal-accepted ")
             \o (IF LegalAccepted THEN "" ELSE "legal-rejected ") \o (IF ColMapOK THEN "" ELSE "colmap ")
IdealOnTrace == (IsPartition /\ SharedIffSameEvent /\ ColsInjective /\ MaskExact /\ IllegalRaises /\ LegalAccepted /\ ColMapOK)
                \/ PrintT(<<"IDEAL-VIOLATED", tid, l - 1, IdealCode>>)
=============================================================================
