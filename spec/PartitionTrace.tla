--------------------------- MODULE PartitionTrace ---------------------------
(***************************************************************************)
(* Trace validation (code -> spec) for Partition.tla: traces recorded by   *)
(* harness/tracer.py from the REAL library (random API programs that TLC   *)
(* did not generate; the repository's own dro tests) are replayed against  *)
(* the specification's actions.  One behaviour per trace (tid); every      *)
(* event must be explained by the corresponding action of Partition with   *)
(* the logged arguments, the logged outcome and the logged projected state *)
(* (ordered event lists, dependency mask); the ideal invariants are        *)
(* evaluated in every state of every trace.                                *)
(***************************************************************************)
EXTENDS Partition

CONSTANT Traces       \* sequence of traces; a trace is a sequence of event records

VARIABLES tid, l
tvars == <<vars, tid, l>>

Ev == Traces[tid][l]
\* TLCEval forces evaluation NOW: a lazily built set would otherwise be evaluated when the successor state is
\* fingerprinted, with l already advanced
SetOfSeq(s) == TLCEval({s[i] : i \in 1..Len(s)})

TraceInit == Init /\ tid \in 1..Len(Traces) /\ l = 1
Consume == l <= Len(Traces[tid]) /\ l' = l + 1 /\ UNCHANGED tid

TEvents == /\ Consume /\ Ev.ev = "adapt_events" /\ ~broken[Ev.v]
           /\ AdaptEvents(TLCEval(Ev.v), TLCEval(Ev.E))
           /\ out' = Ev.out
           /\ ea'[Ev.v] = Ev.ea

TSlice == /\ Consume /\ Ev.ev = "mk_slice"
          /\ MkSlice(TLCEval(Ev.v), SetOfSeq(Ev.idx))

ObservedMask(v) == [i \in 1..Sizes[v] |-> SetOfSeq(Ev.mask[i])]
TAffine == /\ Consume /\ Ev.ev = "adapt_affine"
           /\ IF Ev.sid > 0 THEN AdaptAffineSlice(TLCEval(Ev.sid), SetOfSeq(Ev.comps))
              ELSE IF SetOfSeq(Ev.idx) = 1..Sizes[Ev.v] THEN AdaptAffineVar(TLCEval(Ev.v), SetOfSeq(Ev.comps))
              ELSE AdaptAffineFresh(TLCEval(Ev.v), SetOfSeq(Ev.idx), SetOfSeq(Ev.comps))
           /\ out' = Ev.out
           \* (not MaskOf(Ev.v)': the prime would also apply to Ev, i.e. to l)
           /\ (IF pref'[Ev.v] = 0 THEN EmptyMat(Ev.v) ELSE heap'[pref'[Ev.v]]) = ObservedMask(Ev.v)

\* after an evtadapt that raised midway the specification leaves the variable's behaviour undefined
TUndefined == /\ Consume /\ Ev.ev = "adapt_events" /\ broken[Ev.v]
              /\ UNCHANGED vars

TraceNext == TEvents \/ TSlice \/ TAffine \/ TUndefined
TraceSpec == TraceInit /\ [][TraceNext]_tvars

Accepted == (l = Len(Traces[tid]) + 1) => PrintT(<<"ACCEPT", tid>>)
Progress == PrintT(<<"AT", tid, l>>)
IdealOnTrace == (IsPartition /\ SharedIffSameEvent /\ ColsInjective /\ MaskExact /\ IllegalRaises /\ LegalAccepted)
                \/ PrintT(<<"IDEAL-VIOLATED", tid, l - 1,
                            [partition |-> IsPartition, mask |-> MaskExact, illegal |-> IllegalRaises, legal |-> LegalAccepted]>>)
=============================================================================
