------------------------------ MODULE Sharing ------------------------------
(***************************************************************************)
(* C09, last clause: "using an expression inside one construct (a set, a   *)
(* piecewise term, an expectation) does not change what it means           *)
(* elsewhere".                                                             *)
(*                                                                         *)
(* One expression OBJECT e = x - z (bi-affine: decision minus random       *)
(* variable) and one random-only object ez = 2z are created once and then  *)
(* handed to a sequence of constructs of the same model.  Implementation   *)
(* shaped: an expression object of rsome.dro carries a mutable attribute   *)
(* ctype ("R": holds for every realisation, "E": holds in expectation)     *)
(* that the comparison operators read when the constraint is made;         *)
(*   lp.py ExpPiecewiseConvex.__init__:  piece.ctype = 'E'                 *)
(* is executed ON THE PIECE OBJECT THE USER PASSED (E(maxof(e, ...))), so  *)
(* that a later  t >= e  written with the same object is compiled as an    *)
(* expectation constraint (flag EpwCopies = FALSE: the code before the     *)
(* repair; TRUE: E(maxof(..)) marks copies of its pieces).                 *)
(* In rsome.ro nothing is marked; the ro uses exercise the in-place column *)
(* padding of operands (subroutines.add_linear) after a further variable   *)
(* was declared between two uses.                                          *)
(*                                                                         *)
(* Ghost: what each use declares.  Every use k has its own epigraph        *)
(* variable t_k (objective: sum of t), x is pinned to 1/2, z lives in      *)
(* [0, 1] and (dro) has mean 1/4, so the exact value of every use is known *)
(* and different uses are told apart (table Want, in thousandths).         *)
(***************************************************************************)
EXTENDS Integers, Sequences, FiniteSets, TLC, Json

CONSTANTS Fronts,      \* subset of {"ro", "dro"}
          MaxUses,     \* number of uses in a history
          EpwCopies,   \* transcription of the repaired code?
          WithFresh    \* also allow uses that build a fresh expression (mixing shared and fresh objects)

DroUses == {"row", "Erow", "Emaxof", "maxof", "neg", "scaled"}
RoUses  == {"row", "maxof", "neg", "scaled", "setuse", "ezrow", "newvar"}

\* exact value of t_k at the optimum, times 1000 (x = 1/2; z in [0,1]; dro: E z = 1/4):
\*   row     t >= x - z   for all z           : x - 0          = 1/2
\*   Erow    t >= E(x - z)                    : x - 1/4        = 1/4
\*   Emaxof  t >= E max(x - z, 2(x - z))      : convex in z, worst distribution {0 w.p. 3/4, 1 w.p. 1/4}: 3/4*1 - 1/4*1/2 = 5/8
\*   maxof   t >= max(x - z, z - x) for all z : 1/2
\*   neg     t >= -(x - z)                    : z = 1: 1/2
\*   scaled  t >= 3 (x - z)                   : 3/2
\*   setuse  (t >= x z) for all z with ez = 2z <= 1, z >= 0 : z <= 1/2: 1/4
\*   ezrow   t >= ez = 2 z                    : 2
\*   newvar  a further decision variable is declared (no row): t = 0
Want(u) == CASE u = "row" -> 500 [] u = "Erow" -> 250 [] u = "Emaxof" -> 625 [] u = "maxof" -> 500 [] u = "neg" -> 500
             [] u = "scaled" -> 1500 [] u = "setuse" -> 250 [] u = "ezrow" -> 2000 [] u = "newvar" -> 0
\* what the use declares about the row it makes: "R" every realisation, "E" in expectation, "-" no row on e
Declares(u) == CASE u \in {"row", "maxof", "neg", "scaled", "setuse", "ezrow"} -> "R" [] u \in {"Erow", "Emaxof"} -> "E" [] OTHER -> "-"
\* uses that read the ctype attribute of the object they are given when the constraint is made
ReadsCtype(u) == u \in {"row", "neg", "scaled", "maxof"}

VARIABLES front,
          ctype,     \* attribute of the shared object e
          uses,      \* sequence of [use, shared, declared, compiled]
          hist
vars == <<front, ctype, uses, hist>>

Init == /\ front \in Fronts /\ ctype = "R" /\ uses = <<>> /\ hist = <<>>

Use(u, shared) ==
    /\ Len(uses) < MaxUses
    /\ u \in (IF front = "dro" THEN DroUses ELSE RoUses)
    /\ (~shared => WithFresh /\ u # "newvar")
    /\ LET seen == IF shared THEN ctype ELSE "R"                          \* a fresh object starts unmarked
           compiled == IF Declares(u) = "-" THEN "-"
                       ELSE IF ReadsCtype(u) /\ front = "dro" THEN seen
                       ELSE Declares(u)
       IN uses' = Append(uses, [use |-> u, shared |-> shared, declared |-> Declares(u), compiled |-> compiled])
    \* E(maxof(e, ..)) marks its pieces: the very object (code before the repair) or copies
    /\ ctype' = IF u = "Emaxof" /\ shared /\ front = "dro" /\ ~EpwCopies THEN "E" ELSE ctype
    /\ hist' = Append(hist, [use |-> u, shared |-> shared])
    /\ UNCHANGED front

Next == \E u \in DroUses \cup RoUses, sh \in BOOLEAN : Use(u, sh)
Spec == Init /\ [][Next]_vars

\* C09: every use means what it declares, whatever the object went through before
MeaningIndependent == \A k \in 1..Len(uses) : uses[k].compiled = uses[k].declared
\* ... and the attribute of a user-held object is never changed by handing it to a construct
ObjectUntouched == ctype = "R"

ExportRec == [front |-> front, uses |-> [k \in 1..Len(uses) |-> [use |-> uses[k].use, shared |-> uses[k].shared,
                                                                 want |-> Want(uses[k].use), compiled |-> uses[k].compiled]],
              ideal |-> MeaningIndependent]
Export == (Len(uses) = MaxUses) => PrintT(ToJson(ExportRec))
=============================================================================
