----------------------------- MODULE Lifecycle -----------------------------
(***************************************************************************)
(* Build / formulate / solve life cycle of rsome.ro and rsome.dro models   *)
(* (C09 sets and expressions do not leak, C17 misuse and cross-talk, C19   *)
(* idempotence), implementation shaped:                                    *)
(*                                                                         *)
(*  - every model owns ONE shared random-variable model (sup_model) whose   *)
(*    constraint lists are reset and re-filled by every set definition     *)
(*    (RoConstr.forall lp.py:3342, ro.minmax/maxmin ro.py:181/227; in dro  *)
(*    by every ew_constr.forall(support) during formulation dro.py:670,    *)
(*    765) and whose dual standard form is snapshotted into the constraint;*)
(*  - primal/dual formulas are cached behind pupdate/dupdate flags         *)
(*    (ro.py:357-365, 395-404);                                            *)
(*  - soc_solve() derives an SOC program from the cached primal            *)
(*    (gcp.py:528).                                                        *)
(*                                                                         *)
(* Ghost state: what the user declared (decl), a generation counter of the *)
(* declaration (gen) and the generation each cached formula / solution was *)
(* compiled from.                                                          *)
(***************************************************************************)
EXTENDS Integers, Sequences, FiniteSets, TLC, SequencesExt, Json

CONSTANTS K,           \* number of robust constraints of model 1 that can be made
          SetChoices,  \* the sets (sets of item kinds) a forall/minmax may be given
          ResetLists,  \* the lists sup_model.reset() clears (repaired code: all of them)
          MaxSteps,
          WithModel2,  \* include a second model and the cross-model misuse actions
          WithLate,    \* include the late random variable actions
          WithFail,    \* include the contradictory row and the result reads
          Closing      \* TRUE: the last steps of a history are forced to be objective (if missing) and solve

Lists == {"lin", "pws", "cvx", "ip", "other", "bounds"}
\* item kinds and the list of the support model they are appended to (gcp.st -> socp.st -> lp.st)
ListOf(i) == CASE i = "lin" -> "lin" [] i = "l1" -> "pws" [] i = "l2" -> "cvx"
               [] i = "p3" -> "ip" [] i = "ex" -> "other" [] i = "bd" -> "bounds"
               [] i = "xb" -> "other"      \* a box written with exponential-cone constraints ONLY (no other list is touched)
Items == {"lin", "l1", "l2", "p3", "ex", "bd", "xb"}

NoSet == {"noset"}        \* no set attached (a set, so that it is comparable with real sets)
CIds == 1..K

VARIABLES sup,      \* sup[l]: items currently in list l of model 1's support model
          cons,     \* cons[k] = [made, st, decl, eff]: decl = set the user attached (ghost), eff = snapshot taken
          obj,      \* [kind: "none"|"min"|"minmax", decl, eff]
          gen,      \* ghost: generation of the declaration (bumped by every st / objective)
          pupd, primalGen,   \* ro-level cache: dirty flag, generation the cached formula was compiled from
          sol,      \* [kind: "none"|"ok"|"fail", gen, via]
          m2,       \* second model: [st: number of constraints added, solved: BOOLEAN]
          poisoned, \* the contradictory row t[1] <= -20 was added: the model is infeasible, every later solve must FAIL
          rcDupd, rcDualGen,  \* dual cache of the inner (rc) model: dirty flag, generation of the declaration it was built from
          dualServed, \* ghost: generation of the dual program returned by the last do_math(primal=False); -1 = none
          wrow,     \* late random variable w and the row s*w <= 1 on it: "none" | "declared" (w exists) | "st" (row added);
                    \* wcover: the set that protects the row was captured when w already existed
          wcover,
          hist, out

vars == <<sup, cons, obj, gen, pupd, primalGen, sol, m2, poisoned, rcDupd, rcDualGen, dualServed, wrow, wcover, hist, out>>

-----------------------------------------------------------------------------
Snapshot(s) == UNION {s[l] : l \in Lists}
ResetSup(s) == [l \in Lists |-> IF l \in ResetLists THEN {} ELSE s[l]]
Define(s, S) == LET r == ResetSup(s) IN [l \in Lists |-> r[l] \cup {i \in S : ListOf(i) = l}]

SetSeq(S) == SetToSeq(S)
Log(act, args, expect) == hist' = Append(hist, [act |-> act, args |-> args, expect |-> expect])

Init ==
    /\ sup = [l \in Lists |-> {}]
    /\ cons = [k \in CIds |-> [made |-> TRUE, st |-> FALSE, decl |-> NoSet, eff |-> NoSet]]
    /\ obj = [kind |-> "none", decl |-> NoSet, eff |-> NoSet]
    /\ gen = 0 /\ pupd = TRUE /\ primalGen = -1
    /\ sol = [kind |-> "none", gen |-> -1]
    /\ m2 = [st |-> 0, solved |-> FALSE]
    /\ poisoned = FALSE /\ wrow = "none" /\ wcover = FALSE
    /\ rcDupd = TRUE /\ rcDualGen = -1 /\ dualServed = -1
    /\ hist = <<>> /\ out = "ok"

InClosing == Closing /\ (Len(hist) = MaxSteps - 1 \/ (Len(hist) = MaxSteps - 2 /\ obj.kind = "none"))
More == Len(hist) < MaxSteps /\ ~InClosing

\* the constraint objects c_k = (t[k] >= a_k @ z) exist from the start (creating one touches no model state)
\* c_k.forall(S) before st (set definitions after st are outside the modelled API use)
ForAll(k, S) ==
    /\ More /\ cons[k].made /\ ~cons[k].st
    /\ sup' = Define(sup, S)
    /\ cons' = [cons EXCEPT ![k].decl = S, ![k].eff = Snapshot(Define(sup, S))]
    /\ out' = "ok" /\ Log("forall", <<k, SetSeq(S)>>, "ok")
    /\ UNCHANGED <<obj, gen, pupd, primalGen, sol, m2, poisoned, rcDupd, rcDualGen, dualServed, wrow, wcover>>

St(k) ==
    /\ More /\ cons[k].made /\ ~cons[k].st
    /\ cons' = [cons EXCEPT ![k].st = TRUE]
    /\ gen' = gen + 1 /\ pupd' = TRUE
    /\ out' = "ok" /\ Log("st", <<k>>, "ok")
    /\ UNCHANGED <<sup, obj, primalGen, sol, m2, poisoned, rcDupd, rcDualGen, dualServed, wrow, wcover>>

\* objective: min(sum t) or minmax(sum t, S); a second objective raises and changes nothing
SetObjCore(kind, S) ==
    /\ IF obj.kind # "none"
       THEN /\ out' = "err" /\ Log("obj", <<kind, SetSeq(S)>>, "err")
            /\ UNCHANGED <<sup, obj, gen, pupd, wcover>>
       ELSE /\ out' = "ok" /\ Log("obj", <<kind, SetSeq(S)>>, "ok")
            /\ IF kind = "minmax"
               THEN /\ sup' = Define(sup, S)
                    /\ obj' = [kind |-> kind, decl |-> S, eff |-> Snapshot(Define(sup, S))]
                    /\ wcover' = (wrow # "none")
               ELSE /\ sup' = sup /\ wcover' = wcover
                    /\ obj' = [kind |-> kind, decl |-> NoSet, eff |-> NoSet]
            /\ gen' = gen + 1 /\ pupd' = TRUE
    /\ UNCHANGED <<cons, primalGen, sol, m2, poisoned, rcDupd, rcDualGen, dualServed, wrow>>

\* what formulation needs: an objective, and a set (own or default) for every robust row in the model
SetOf(k) == IF cons[k].eff # NoSet THEN cons[k].eff ELSE obj.eff
DeclOf(k) == IF cons[k].decl # NoSet THEN cons[k].decl ELSE obj.decl
Formulable == obj.kind # "none" /\ \A k \in CIds : cons[k].st => SetOf(k) # NoSet

\* the declaration as the user sees it: for every constraint in the model the set attached to it
DeclSnapshot == [decls |-> [k \in CIds |-> IF cons[k].st THEN SetSeq(DeclOf(k)) ELSE <<"absent">>],
                 wrow |-> wrow = "st"]

\* ro.Model.do_math(primal=True): cache hit | re-expansion.  A re-expansion resets and refills the inner (rc) model,
\* whose st() marks ITS caches dirty (rcDupd).
WillReexpand == Formulable /\ ~(primalGen >= 0 /\ ~pupd)
DupdAfter == IF WillReexpand THEN TRUE ELSE rcDupd          \* rc_model.dupdate after the primal was ensured
GenAfter == IF WillReexpand THEN gen ELSE primalGen          \* generation of the primal the rc model then holds
Compile ==
    IF ~Formulable THEN /\ UNCHANGED <<pupd, primalGen>>
    ELSE IF primalGen >= 0 /\ ~pupd
         THEN UNCHANGED <<pupd, primalGen>>               \* CacheHit
         ELSE pupd' = FALSE /\ primalGen' = gen                        \* Reexpand

\* exponential cones in the compiled program (gcp.Model.do_math clears dupdate only on the exp-cone path, gcp.py:267-380)
HasXmat == \/ \E k \in CIds : cons[k].st /\ SetOf(k) \cap {"ex", "xb"} # {}
           \/ obj.eff \cap {"ex", "xb"} # {}

\* ro.Model.do_math(primal=False) (ro.py:362-368): ensure the primal, then ask the rc model for its dual, which is cached
\* behind rc_model.dupdate (gcp.py:270)
DualStep ==
    IF ~Formulable THEN UNCHANGED <<rcDupd, rcDualGen, dualServed>>
    ELSE IF rcDualGen >= 0 /\ ~DupdAfter
         THEN /\ dualServed' = rcDualGen /\ rcDupd' = DupdAfter /\ UNCHANGED rcDualGen        \* rc dual cache hit
         ELSE /\ rcDualGen' = GenAfter /\ dualServed' = GenAfter
              /\ rcDupd' = IF HasXmat THEN FALSE ELSE DupdAfter

DoMath(primal) ==
    /\ More /\ Compile
    /\ IF primal THEN rcDupd' = DupdAfter /\ UNCHANGED <<rcDualGen, dualServed>> ELSE DualStep
    /\ out' = IF Formulable THEN "ok" ELSE "err"
    /\ Log(IF primal THEN "do_math" ELSE "do_math_dual", <<>>, IF Formulable THEN "ok" ELSE "err")
    /\ UNCHANGED <<sup, cons, obj, gen, sol, m2, poisoned, wrow, wcover>>

\* solve never raises on an infeasible model: it returns, reports that no solution is available, and results cannot be read
SolveCore(via) == \* via: "solve" (exact cone solver) | "soc_solve" (SOC approximation of exponential cones)
    /\ Compile /\ rcDupd' = DupdAfter
    /\ IF ~Formulable
       THEN /\ out' = "err" /\ Log(via, DeclSnapshot, "err") /\ UNCHANGED <<sol>>
       ELSE IF poisoned
       THEN /\ out' = "ok" /\ Log(via, DeclSnapshot, "fail")
            /\ sol' = [kind |-> "fail", gen |-> gen]
       ELSE /\ out' = "ok" /\ Log(via, DeclSnapshot, "ok")
            /\ sol' = [kind |-> "ok", gen |-> IF primalGen >= 0 /\ ~pupd THEN primalGen ELSE gen]
    /\ UNCHANGED <<sup, cons, obj, gen, m2, poisoned, rcDualGen, dualServed, wrow, wcover>>

\* m.st(t[1] <= -20) against t >= -10: the model becomes infeasible (a deterministic row: no set involved)
Contradict ==
    /\ More /\ ~poisoned
    /\ poisoned' = TRUE /\ gen' = gen + 1 /\ pupd' = TRUE
    /\ out' = "ok" /\ Log("contradict", <<>>, "ok")
    /\ UNCHANGED <<sup, cons, obj, primalGen, sol, m2, rcDupd, rcDualGen, dualServed, wrow, wcover>>

\* m.get(), t.get(), t[1].get(): readable exactly when the LAST solve produced a solution (C17: results of an unsolved or
\* failed model cannot be read - also when an earlier solve of the same model had succeeded)
Read ==
    /\ More
    /\ out' = (IF sol.kind = "ok" THEN "ok" ELSE "err") /\ Log("read", <<>>, IF sol.kind = "ok" THEN "ok" ELSE "err")
    /\ UNCHANGED <<sup, cons, obj, gen, pupd, primalGen, sol, m2, poisoned, rcDupd, rcDualGen, dualServed, wrow, wcover>>

SetObj(kind, S) == More /\ SetObjCore(kind, S)

\* w = m.rvar() declared late (after some set may already have been captured), then m.st(s*w <= 1), protected by the
\* DEFAULT set.  Ideal: w is a component no set constrains, so the row forces s = 0 whatever the order of declarations.
\* Code: le_to_rc clips the row to the width of the captured support (lp.py:3379 num_rand = min(...)): when the default
\* set was captured before w existed the term s*w is silently dropped (wcover = FALSE).
LateRvar == /\ More /\ wrow = "none"
            /\ wrow' = "declared" /\ out' = "ok" /\ Log("late_rvar", <<>>, "ok")
            /\ UNCHANGED <<sup, cons, obj, gen, pupd, primalGen, sol, m2, poisoned, rcDupd, rcDualGen, dualServed, wcover>>
LateRow == /\ More /\ wrow = "declared" /\ obj.kind = "minmax"
           /\ wrow' = "st" /\ gen' = gen + 1 /\ pupd' = TRUE
           /\ out' = "ok" /\ Log("late_row", <<>>, "ok")
           /\ UNCHANGED <<sup, cons, obj, primalGen, sol, m2, poisoned, rcDupd, rcDualGen, dualServed, wcover>>
Solve(via) == More /\ SolveCore(via)

\* ------------------------------------------------------------------ second model and misuse (C17)
M2St   == /\ More /\ WithModel2 /\ m2.st < 2
          /\ m2' = [m2 EXCEPT !.st = @ + 1, !.solved = FALSE]
          /\ out' = "ok" /\ Log("m2_st", <<>>, "ok")
          /\ UNCHANGED <<sup, cons, obj, gen, pupd, primalGen, sol, poisoned, rcDupd, rcDualGen, dualServed, wrow, wcover>>
M2Solve == /\ More /\ WithModel2 /\ ~m2.solved
           /\ m2' = [m2 EXCEPT !.solved = TRUE]
           /\ out' = "ok" /\ Log("m2_solve", <<>>, "ok")
           /\ UNCHANGED <<sup, cons, obj, gen, pupd, primalGen, sol, poisoned, rcDupd, rcDualGen, dualServed, wrow, wcover>>
\* each of these must raise and leave BOTH models as they were
Misuses == {"st_foreign_constr", "forall_foreign_set", "add_foreign_var", "minmax_foreign_set",
            "get_unsolved", "obj_nonscalar", "st_foreign_robust",
            \* decision rules: adapting to a random variable of the other model, on a fresh rule and on a rule that
            \* already has a legitimate adaptation (the ownership test must not depend on the rule's history)
            "ldr_adapt_foreign_fresh", "ldr_adapt_foreign_used"}
Misuse(w) ==
    /\ More /\ WithModel2
    /\ (w = "get_unsolved" => sol.kind = "none")
    /\ (w = "forall_foreign_set" => \E k \in CIds : cons[k].made /\ ~cons[k].st)
    /\ (w \in {"minmax_foreign_set", "obj_nonscalar"} => obj.kind = "none")
    /\ out' = "err" /\ Log("misuse", <<w>>, "err")
    /\ UNCHANGED <<sup, cons, obj, gen, pupd, primalGen, sol, m2, poisoned, rcDupd, rcDualGen, dualServed, wrow, wcover>>

DoSt == \E k \in CIds : St(k)
DoForAll == \E k \in CIds, S \in SetChoices : ForAll(k, S)
DoSetObj == SetObj("min", {}) \/ \E S \in SetChoices : SetObj("minmax", S)
DoDoMath == DoMath(TRUE) \/ DoMath(FALSE)
DoSolve == Solve("solve") \/ Solve("soc_solve")
DoMisuse == \E w \in Misuses : Misuse(w)
Body == DoSt \/ DoForAll \/ DoSetObj \/ DoDoMath \/ DoSolve \/ M2St \/ M2Solve \/ DoMisuse \/ (WithLate /\ (LateRvar \/ LateRow))
        \/ (WithFail /\ (Contradict \/ Read))

CloseObj == /\ Closing /\ Len(hist) = MaxSteps - 2 /\ obj.kind = "none"
            /\ (SetObjCore("min", {}) \/ \E S \in SetChoices : SetObjCore("minmax", S))
CloseSolve == /\ Closing /\ Len(hist) = MaxSteps - 1
              /\ (SolveCore("solve") \/ SolveCore("soc_solve"))

Next == Body \/ CloseObj \/ CloseSolve

Spec == Init /\ [][Next]_vars

-----------------------------------------------------------------------------
(* Properties *)

\* C09: the set applied to a constraint is exactly the one attached to it
NoSetLeak == /\ \A k \in CIds : cons[k].eff # NoSet => cons[k].eff = cons[k].decl
             /\ obj.eff # NoSet => obj.eff = obj.decl

\* C09: every random component a row mentions is covered by the set that protects the row (known finding: violated)
LateComponentCovered == wrow = "st" => wcover

\* C09/C19: a solution always belongs to the declaration as it was when solve was called
SolutionCurrent == sol.kind = "ok" => sol.gen <= gen
SolveUsesCurrent == (Len(hist) > 0 /\ hist[Len(hist)].act \in {"solve", "soc_solve"} /\ out = "ok") => sol.gen = gen
CacheCoherent == (primalGen >= 0 /\ ~pupd) => primalGen = gen
\* C08/C09/C19: the dual program returned by do_math(primal=False) belongs to the current declaration
DualCurrent == (Len(hist) > 0 /\ hist[Len(hist)].act = "do_math_dual" /\ out = "ok") => dualServed = gen

\* C17: misuse raises, never produces a solution, changes nothing (checked as action property)
MisuseIsolated == [][DoMisuse => UNCHANGED <<sup, cons, obj, gen, pupd, primalGen, sol, m2, rcDupd, rcDualGen>>]_vars
Model2Isolated == [][(M2St \/ M2Solve) => UNCHANGED <<sup, cons, obj, gen, pupd, primalGen, sol>>]_vars

-----------------------------------------------------------------------------
(* Export: the history with, per step, the expected outcome, and the declaration at the end:      *)
(* for every constraint in the model the set the USER attached (ghost) - the oracle builds each   *)
(* constraint alone in a fresh model, where nothing can leak.                                     *)
StateRec ==
    [hist |-> [i \in 1..Len(hist) |-> [act |-> hist[i].act, expect |-> hist[i].expect,
                                       args |-> hist[i].args]],
     cons |-> [k \in CIds |-> [st |-> cons[k].st, decl |-> SetSeq(DeclOf(k)), eff |-> SetSeq(SetOf(k))]],
     obj |-> obj.kind, formulable |-> Formulable, solved |-> sol.kind = "ok" /\ sol.gen = gen]
ExportEnd == (Len(hist) = MaxSteps) => PrintT(ToJson(StateRec))
View == <<sup, cons, obj, gen, pupd, primalGen, sol, m2, poisoned, rcDupd, rcDualGen, dualServed, wrow, wcover, out>>
=============================================================================
