------------------------------- MODULE IPCone -------------------------------
(***************************************************************************)
(* The power-cone tower of rsome, transcribed from                         *)
(*   lp.py   IPCone.to_soc (3309) / to_pot (3233) / split (3250)           *)
(*   socp.py do_math: the callers 'G' (p-norm, 124-138), 'T' (power,       *)
(*           139-160) and 'C' (geometric mean, 161-165).                   *)
(*                                                                         *)
(* IPCone(x, r, beta) states  |x|^(sum beta) <= prod r_i^beta_i  and is    *)
(* compiled into rotated second-order cones  left^2 <= u * v.  The state   *)
(* is implementation shaped: `work` is the recursion stack of split(),     *)
(* `cones` the list it returns (pre-order), `allocs` the calls of          *)
(* model.dvar() with the aux flag each call passes.  One action per branch *)
(* of the code's case analysis.                                            *)
(*                                                                         *)
(* Independently of that bookkeeping the MEANING of the emitted cones is   *)
(* computed by multiplying the tree out (Expo): normalised to the root,    *)
(*    root <= prod leaf^(w_leaf / 2^H)                                     *)
(* and compared with what the user wrote (beta).  Pure integer arithmetic. *)
(*                                                                         *)
(* Variable names: 0 = x (the left-hand side), 1..n = r_1..r_n, n+1.. =    *)
(* fresh variables in the order model.dvar() is called.                    *)
(*                                                                         *)
(* A second, recursion-free part enumerates the atoms whose closed form is *)
(* rational (quad with integer PSD/NSD matrices, sumsqr, square, 1-/inf-   *)
(* norm, abs) at pinned rational arguments and exports their exact values. *)
(***************************************************************************)
EXTENDS Naturals, Integers, Sequences, FiniteSets, TLC, SequencesExt, FiniteSetsExt, Json

CONSTANTS MaxLen,        \* generic weight vectors (gmean weights): 1..MaxLen entries
          MaxSum,        \*   ... positive integers with sum <= MaxSum
          MaxP,          \* callers: p-norm degree a/b, power p/q with 1 <= b < a <= MaxP
          SplitAuxFixed, \* FALSE: split() as written (lp.py:3272 `u = model.dvar()`, no aux=True)
                         \* TRUE : transcription of the code after `u = model.dvar(aux=True)`
          ExportMod,     \* export every done state whose weight vector has < 5 entries, and
                         \* those with 5 entries whose checksum is 0 modulo ExportMod
          QRange,        \* entries of the 2x2 integer matrices of quad(): -QRange..QRange
          Args2,         \* pinned arguments of the rational atoms: set of <<n1, n2>> (numerators)
          ArgDen         \* ... over this common denominator

VARIABLES beta,      \* weight vector being built (parameter phase), then the user's beta
          par,       \* [kind, a, b]: which caller produced beta ("C" gmean, "G" p-norm integer p,
                     \*   "R" p-norm a/b, "T" power a/b, "" while building; rational atoms: see below)
          pc,        \* "param" | "start" | "split" | "done"
          work,      \* recursion stack of split(): Seq of [left, right, beta]
          cones,     \* emitted rotated cones, Seq of [left, u, v, br]   (left^2 <= u*v)
          lin,       \* emitted linear/abs rows, Seq of [big, small]      (big >= |small|)
          allocs,    \* calls of model.dvar(): Seq of [id, aux, role]
          rat        \* rational atom record (pc = "done", par.kind = "Q"), else <<>>

vars == <<beta, par, pc, work, cones, lin, allocs, rat>>

-----------------------------------------------------------------------------
(* arithmetic helpers *)
RECURSIVE SumSeq(_)
SumSeq(s) == IF s = <<>> THEN 0 ELSE Head(s) + SumSeq(Tail(s))
MaxSeq(s) == CHOOSE m \in {s[i] : i \in 1..Len(s)} : \A i \in 1..Len(s) : s[i] <= m
ArgMax(s) == CHOOSE i \in 1..Len(s) : s[i] = MaxSeq(s) /\ \A j \in 1..(i - 1) : s[j] < MaxSeq(s)   \* np.argmax: first
RECURSIVE Pow2AtLeast(_, _)
Pow2AtLeast(d, p) == IF p >= d THEN p ELSE Pow2AtLeast(d, 2 * p)
CeilPow2(d) == Pow2AtLeast(d, 1)                    \* int(2 ** np.ceil(np.log2(d)))
IsPow2(d) == d >= 1 /\ CeilPow2(d) = d
RECURSIVE Pow2(_)
Pow2(k) == IF k = 0 THEN 1 ELSE 2 * Pow2(k - 1)
Cum(s, i) == SumSeq(SubSeq(s, 1, i))                \* np.cumsum(s)[i-1]
Without(s, i) == SubSeq(s, 1, i - 1) \o SubSeq(s, i + 1, Len(s))
Abs(x) == IF x < 0 THEN -x ELSE x

N == Len(beta)                                       \* number of right-hand variables r_1..r_n
NextId == N + 1 + Len(allocs)
Alloc(aux, role) == [id |-> NextId, aux |-> aux, role |-> role]

-----------------------------------------------------------------------------
(* parameter phase: build a weight vector entry by entry, or pick a caller *)

Init == /\ beta = <<>> /\ par = [kind |-> "", a |-> 0, b |-> 0] /\ pc = "param"
        /\ work = <<>> /\ cones = <<>> /\ lin = <<>> /\ allocs = <<>> /\ rat = <<>>

AddWeight(h) ==
    /\ pc = "param" /\ Len(beta) < MaxLen /\ SumSeq(beta) + h <= MaxSum
    /\ beta' = Append(beta, h)
    /\ UNCHANGED <<par, pc, work, cones, lin, allocs, rat>>

\* 'C' (socp.py:161): IPCone(aux, affine_in, beta) with the user's weights
StartGmean ==
    /\ pc = "param" /\ Len(beta) >= 1
    /\ par' = [kind |-> "C", a |-> 0, b |-> 0] /\ pc' = "start"
    /\ UNCHANGED <<beta, work, cones, lin, allocs, rat>>

\* 'G' (socp.py:127): integer degree p -> beta = [1, p-1]
StartPnormInt(p) ==
    /\ pc = "param" /\ beta = <<>>
    /\ beta' = <<1, p - 1>> /\ par' = [kind |-> "G", a |-> p, b |-> 1] /\ pc' = "start"
    /\ UNCHANGED <<work, cones, lin, allocs, rat>>

\* 'G' (socp.py:130): degree (a, b) -> beta = [b, a-b]
StartPnormRat(a, b) ==
    /\ pc = "param" /\ beta = <<>>
    /\ beta' = <<b, a - b>> /\ par' = [kind |-> "R", a |-> a, b |-> b] /\ pc' = "start"
    /\ UNCHANGED <<work, cones, lin, allocs, rat>>

\* 'T' (socp.py:155): power p/q -> beta = [q, p-q]   (p = q is compiled to abs, no tower)
StartPower(p, q) ==
    /\ pc = "param" /\ beta = <<>>
    /\ beta' = <<q, p - q>> /\ par' = [kind |-> "T", a |-> p, b |-> q] /\ pc' = "start"
    /\ UNCHANGED <<work, cones, lin, allocs, rat>>

-----------------------------------------------------------------------------
(* to_soc / to_pot *)
Rights == [i \in 1..N |-> i]

\* to_soc, len(beta) == 1:  [self.left.abs() <= self.right]
Single ==
    /\ pc = "start" /\ N = 1
    /\ lin' = <<[big |-> 1, small |-> 0]>>
    /\ pc' = "done"
    /\ UNCHANGED <<beta, par, work, cones, allocs, rat>>

XBeta == CeilPow2(SumSeq(beta)) - SumSeq(beta)

\* to_pot, xbeta > 0: s = dvar(aux=True); IPCone(s, concat(right, s), beta + [xbeta]); s >= abs(left)
ToPotPad ==
    /\ pc = "start" /\ N >= 2 /\ XBeta > 0
    /\ allocs' = Append(allocs, Alloc(TRUE, "s"))
    /\ work' = <<[left |-> NextId, right |-> Append(Rights, NextId), beta |-> Append(beta, XBeta)]>>
    /\ lin' = <<[big |-> NextId, small |-> 0]>>
    /\ pc' = "split"
    /\ UNCHANGED <<beta, par, cones, rat>>

\* to_pot, xbeta == 0: IPCone(self.left, self.right, beta)
ToPotExact ==
    /\ pc = "start" /\ N >= 2 /\ XBeta = 0
    /\ work' = <<[left |-> 0, right |-> Rights, beta |-> beta]>>
    /\ pc' = "split"
    /\ UNCHANGED <<beta, par, cones, lin, allocs, rat>>

-----------------------------------------------------------------------------
(* split(): the head of `work` is the IPCone whose split() runs now *)
Node == Head(work)
Deg(nd) == SumSeq(nd.beta)
IsEqualPair(nd) == Len(nd.beta) = 2 /\ nd.beta[1] = nd.beta[2]
IsMaxCase(nd) == ~IsEqualPair(nd) /\ 2 * MaxSeq(nd.beta) >= Deg(nd)      \* max(beta) >= degree/2

\* if len(beta) == 2 and beta[0] == beta[1]: return [left.rsocone(right[0], right[1])]
SplitEqual ==
    /\ pc = "split" /\ work # <<>> /\ IsEqualPair(Node)
    /\ cones' = Append(cones, [left |-> Node.left, u |-> Node.right[1], v |-> Node.right[2], br |-> "equal"])
    /\ work' = Tail(work)
    /\ UNCHANGED <<beta, par, pc, lin, allocs, rat>>

\* elif max(beta) >= degree/2
SplitMax ==
    /\ pc = "split" /\ work # <<>> /\ IsMaxCase(Node)
    /\ LET nd    == Node
           index == ArgMax(nd.beta)
           mid   == nd.beta[index] - (Deg(nd) \div 2)
           beta1 == SubSeq(nd.beta, 1, index - 1) \o (IF mid = 0 THEN <<>> ELSE <<mid>>)
                    \o SubSeq(nd.beta, index + 1, Len(nd.beta))
           right1 == IF mid > 0 THEN nd.right ELSE Without(nd.right, index)
           u == NextId
       IN /\ allocs' = Append(allocs, Alloc(SplitAuxFixed, "u_max"))        \* u = model.dvar()
          /\ cones' = Append(cones, [left |-> nd.left, u |-> u, v |-> nd.right[index], br |-> "max"])
          /\ work' = <<[left |-> u, right |-> right1, beta |-> beta1]>> \o Tail(work)
    /\ UNCHANGED <<beta, par, pc, lin, rat>>

\* else: cumulative split
SplitCum ==
    /\ pc = "split" /\ work # <<>> /\ ~IsEqualPair(Node) /\ ~IsMaxCase(Node)
    /\ LET nd    == Node
           deg   == Deg(nd)
           index == CHOOSE i \in 1..Len(nd.beta) :                          \* np.argmax(cum >= degree/2)
                        /\ 2 * Cum(nd.beta, i) >= deg
                        /\ \A j \in 1..(i - 1) : 2 * Cum(nd.beta, j) < deg
           prev  == IF index = 1 THEN deg ELSE Cum(nd.beta, index - 1)      \* cum[index-1]; cum[-1] wraps
           mid   == (deg \div 2) - prev
           beta1 == Append(SubSeq(nd.beta, 1, index - 1), mid)
           right1 == SubSeq(nd.right, 1, index)
           same  == mid = nd.beta[index]
           beta2 == IF same THEN SubSeq(nd.beta, index + 1, Len(nd.beta))
                    ELSE <<nd.beta[index] - mid>> \o SubSeq(nd.beta, index + 1, Len(nd.beta))
           right2 == IF same THEN SubSeq(nd.right, index + 1, Len(nd.right))
                     ELSE SubSeq(nd.right, index, Len(nd.right))
           u == NextId
           v == NextId + 1
       IN /\ allocs' = allocs \o <<[id |-> u, aux |-> TRUE, role |-> "u_cum"],
                                    [id |-> v, aux |-> TRUE, role |-> "v_cum"]>>
          /\ cones' = Append(cones, [left |-> nd.left, u |-> u, v |-> v, br |-> "cum"])
          /\ work' = <<[left |-> u, right |-> right1, beta |-> beta1],
                       [left |-> v, right |-> right2, beta |-> beta2]>> \o Tail(work)
    /\ UNCHANGED <<beta, par, pc, lin, rat>>

Finish ==
    /\ pc = "split" /\ work = <<>>
    /\ pc' = "done"
    /\ UNCHANGED <<beta, par, work, cones, lin, allocs, rat>>

-----------------------------------------------------------------------------
(* atoms with a rational closed form (no tower): exact values at pinned rational arguments *)
QSet == (0 - QRange)..QRange
PSD2(q) == q[1] >= 0 /\ q[3] >= 0 /\ q[1] * q[3] >= q[2] * q[2]           \* [[q1,q2],[q2,q3]] >= 0
NSD2(q) == PSD2(<<0 - q[1], 0 - q[2], 0 - q[3]>>)
QForm(q, n) == q[1] * n[1] * n[1] + 2 * q[2] * n[1] * n[2] + q[3] * n[2] * n[2]
ArgSeq == SetToSortSeq(Args2, LAMBDA s, t : s[1] < t[1] \/ (s[1] = t[1] /\ s[2] < t[2]))
MaxAbs2(n) == IF Abs(n[1]) >= Abs(n[2]) THEN Abs(n[1]) ELSE Abs(n[2])

\* value = num / den for each pinned argument n / ArgDen
RatAtom(kind, q, f(_), den) ==
    /\ pc = "param" /\ beta = <<>>
    /\ par' = [kind |-> "Q", a |-> 0, b |-> 0] /\ pc' = "done"
    /\ rat' = [atom |-> kind, q |-> q, args |-> ArgSeq, argden |-> ArgDen,
               num |-> [i \in 1..Len(ArgSeq) |-> f(ArgSeq[i])], den |-> den]
    /\ UNCHANGED <<beta, work, cones, lin, allocs>>

DoQuad   == \E q \in QSet \X QSet \X QSet : (PSD2(q) \/ NSD2(q)) /\ q # <<0, 0, 0>>
                 /\ RatAtom(IF PSD2(q) THEN "quad" ELSE "quadneg", q, LAMBDA n : QForm(q, n), ArgDen * ArgDen)
DoSumsqr == RatAtom("sumsqr", <<1, 0, 1>>, LAMBDA n : QForm(<<1, 0, 1>>, n), ArgDen * ArgDen)
DoSquare == RatAtom("square", <<1, 0, 0>>, LAMBDA n : n[1] * n[1], ArgDen * ArgDen)
DoNorm1  == RatAtom("norm1", <<0, 0, 0>>, LAMBDA n : Abs(n[1]) + Abs(n[2]), ArgDen)
DoNormInf == RatAtom("norminf", <<0, 0, 0>>, LAMBDA n : MaxAbs2(n), ArgDen)
DoAbs    == RatAtom("abs", <<0, 0, 0>>, LAMBDA n : Abs(n[1]), ArgDen)
\* norm(x,2)^2 is rational: the replay compares squares
DoNorm2  == RatAtom("norm2sq", <<1, 0, 1>>, LAMBDA n : QForm(<<1, 0, 1>>, n), ArgDen * ArgDen)

-----------------------------------------------------------------------------
DoAddWeight     == \E h \in 1..MaxSum : AddWeight(h)
DoStartPnormInt == \E p \in 2..MaxP : StartPnormInt(p)
DoStartPnormRat == \E a \in 2..MaxP : \E b \in 1..(a - 1) : StartPnormRat(a, b)
DoStartPower    == \E p \in 2..MaxP : \E q \in 1..(p - 1) : StartPower(p, q)

Next == \/ DoAddWeight \/ StartGmean \/ DoStartPnormInt \/ DoStartPnormRat \/ DoStartPower
        \/ Single \/ ToPotPad \/ ToPotExact \/ SplitEqual \/ SplitMax \/ SplitCum \/ Finish
        \/ DoQuad \/ DoSumsqr \/ DoSquare \/ DoNorm1 \/ DoNormInf \/ DoAbs \/ DoNorm2

Spec == Init /\ [][Next]_vars

-----------------------------------------------------------------------------
(* MEANING of what has been emitted so far.
   Normalise the root to exponent 1 = W0/W0 with W0 = 2^H, H large enough for every halving.
   A cone  l^2 <= u*v  gives l <= u^(1/2) v^(1/2);
   a pending node (l, right, beta) stands for  l <= prod right_i^(beta_i / sum beta);
   originals 1..N and the padding variable s are leaves.  Result: weight of every variable name. *)
InTower == pc \in {"split", "done"} /\ par.kind # "Q" /\ N >= 2
Padded == allocs # <<>> /\ allocs[1].role = "s"
SId == N + 1
RootLeft == IF Padded THEN SId ELSE 0
IsLeaf(x) == x \in 1..N \/ (Padded /\ x = SId)
Ids == 0..(N + Len(allocs))
H == Len(cones) + 6                                   \* tower total degree <= 2^6 within the constants
W0 == Pow2(H)
Unit(x, w) == [y \in Ids |-> IF y = x THEN w ELSE 0]
VAdd(f, g) == [y \in Ids |-> f[y] + g[y]]
RECURSIVE VSum(_)
VSum(fs) == IF fs = <<>> THEN [y \in Ids |-> 0] ELSE VAdd(Head(fs), VSum(Tail(fs)))
ConesOf(x) == {i \in 1..Len(cones) : cones[i].left = x}
NodesOf(x) == {i \in 1..Len(work) : work[i].left = x}

RECURSIVE Expo(_, _, _)
Expo(x, w, root) ==
    IF ~root /\ IsLeaf(x) THEN Unit(x, w)
    ELSE IF ConesOf(x) # {}
         THEN LET c == cones[CHOOSE i \in ConesOf(x) : TRUE]
              IN VAdd(Expo(c.u, w \div 2, FALSE), Expo(c.v, w \div 2, FALSE))
    ELSE IF NodesOf(x) # {}
         THEN LET nd == work[CHOOSE i \in NodesOf(x) : TRUE]
              IN VSum([i \in 1..Len(nd.beta) |-> Unit(nd.right[i], (w * nd.beta[i]) \div SumSeq(nd.beta))])
    ELSE Unit(x, w)                                   \* a dangling fresh variable: shows up as a mismatch

ExpoVec == Expo(RootLeft, W0, TRUE)
K2 == CeilPow2(SumSeq(beta))                          \* 2^k, the padded total degree
Target == [y \in Ids |-> IF y \in 1..N THEN (W0 * beta[y]) \div K2
                         ELSE IF Padded /\ y = SId THEN (W0 * (K2 - SumSeq(beta))) \div K2
                         ELSE 0]

-----------------------------------------------------------------------------
(* Properties *)

TypeOK == /\ pc \in {"param", "start", "split", "done"}
          /\ par.kind \in {"", "C", "G", "R", "T", "Q"}
          /\ \A i \in 1..Len(beta) : beta[i] >= 1

\* what split() relies on and never checks: every cone handed to it has >= 2 positive weights whose
\* sum is a power of two, one right-hand variable per weight (otherwise split() recurses for ever
\* or mis-indexes)
NodesWellFormed ==
    \A i \in 1..Len(work) :
        LET nd == work[i] IN
        /\ Len(nd.beta) >= 2 /\ Len(nd.right) = Len(nd.beta)
        /\ \A j \in 1..Len(nd.beta) : nd.beta[j] >= 1
        /\ IsPow2(SumSeq(nd.beta))
        /\ \A j \in 1..Len(nd.right) : IsLeaf(nd.right[j])

\* each fresh variable is the left-hand side of exactly one cone / pending node, the root of one
SingleOwner ==
    InTower => \A x \in Ids :
        (x = RootLeft \/ (x > N /\ ~IsLeaf(x))) => Cardinality(ConesOf(x)) + Cardinality(NodesOf(x)) = 1

\* C07: in every state of the recursion the emitted cones together with the pending ones mean
\* exactly |x|^(2^k) <= prod r_i^beta_i * s^(2^k - sum beta); at "done" nothing is pending.
TowerExact == (InTower /\ NodesWellFormed) => ExpoVec = Target
\* ... and the padding variable dominates |x|, nothing else is emitted
PadExact == (InTower /\ pc = "done") =>
                /\ lin = (IF Padded THEN <<[big |-> SId, small |-> 0]>> ELSE <<>>)
                /\ Padded <=> (~IsPow2(SumSeq(beta)))
SingleExact == (pc = "done" /\ par.kind # "Q" /\ N = 1) => (lin = <<[big |-> 1, small |-> 0]>> /\ cones = <<>>)

\* C07: the tower's exponents give the degree the caller asked for:
\*   'G','R': |x_j|^(e1+e2) <= aux1^e1 * aux2^e2, sum aux1 <= aux2  <=>  ||x||_{(e1+e2)/e1} <= aux2
\*   'T'    : |x|^(e1+e2) <= aux1^e1 * 1^e2                          <=>  |x|^{(e1+e2)/e1} <= aux1
CallerExact == (pc = "done" /\ par.kind \in {"G", "R", "T"}) =>
                   LET e == ExpoVec IN /\ e[1] > 0
                                       /\ (e[1] + e[2]) * par.b = par.a * e[1]

\* C07 (DESIGN 2.5 AuxRolledBack): every variable the tower allocates is auxiliary, so that a later
\* do_math() starts again from the user's variables
NonAux == {i \in 1..Len(allocs) : ~allocs[i].aux}
AuxAreAux == NonAux = {}
\* the one place where the code as written does not: split(), max branch (lp.py:3272)
KnownSplitMaxNonAux == ~SplitAuxFixed /\ \A i \in NonAux : allocs[i].role = "u_max"
AuxAreAuxOrKnown == AuxAreAux \/ KnownSplitMaxNonAux

-----------------------------------------------------------------------------
(* Export for the replay *)
CheckSum(s) == SumSeq([i \in 1..Len(s) |-> i * s[i]])
Selected == Len(beta) < 5 \/ CheckSum(beta) % ExportMod = 0

TowerRec ==
    [kind |-> par.kind, a |-> par.a, b |-> par.b, beta |-> beta, n |-> N,
     padded |-> Padded, k2 |-> K2, xbeta |-> K2 - SumSeq(beta),
     cones |-> cones, lin |-> lin, allocs |-> allocs,
     nonaux |-> Cardinality(NonAux),
     idealOK |-> [tower |-> TowerExact, aux |-> AuxAreAux]]

Export == (pc = "done" /\ (par.kind = "Q" \/ Selected)) =>
              PrintT(ToJson(IF par.kind = "Q" THEN [kind |-> "Q", rat |-> rat] ELSE TowerRec))
=============================================================================
