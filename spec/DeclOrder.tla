------------------------------ MODULE DeclOrder ------------------------------
(***************************************************************************)
(* C09 / C13 / C15: "in whatever order constraints, variables and sets     *)
(* were created", "any order of declaring variables and constraints".      *)
(*                                                                         *)
(* One fixed final model; its declaration steps are a partial order        *)
(* (Before: a step needs the objects it mentions); TLC enumerates EVERY    *)
(* linear extension.  Ideal: the solved model is the same for all of them. *)
(*                                                                         *)
(* Implementation shaped: rsome lays random components out as columns of   *)
(* the support model, and objects CAPTURE the number of columns that       *)
(* exists when they are created -                                          *)
(*   depW   width of DecRule.depend, fixed by the first adapt();           *)
(*   exprW  width of the random block of a bi-affine expression object;    *)
(* a random variable declared later widens the layout (nrand).  When the   *)
(* object is USED (to_affine / operator / constraint), its captured width  *)
(* must be brought to the current one (padding with "no dependence");      *)
(* re-interpreting the old flat layout at the new width shifts every       *)
(* dependency (DecRule.to_affine before repair 707a1d9: PadRule = FALSE).  *)
(***************************************************************************)
EXTENDS Integers, Sequences, FiniteSets, TLC, Json

CONSTANTS Steps,      \* set of step names
          Before,     \* set of <<a, b>>: a must precede b
          RvarSteps,  \* steps declaring random variables -> number of components: function
          AdaptSteps, \* steps calling adapt on the rule
          RuleUses,   \* steps that use the rule (first one runs to_affine)
          ExprMake,   \* the step creating the shared expression object
          ExprUses,   \* steps using the expression object
          PadRule,    \* TRUE: to_affine pads depend to the current width (repaired code)
          PadExpr     \* TRUE: operators pad the random block of an older expression

VARIABLES done,      \* sequence of steps executed
          nrand,     \* current number of random components
          depW,      \* -1: no adapt yet; else width captured by the first adapt
          ruleW,     \* -1: rule not yet expanded; else the width its flat mask was interpreted with
          ruleAt,    \* nrand when the rule was expanded
          exprW,     \* -1 / captured width of the expression object
          exprBad,   \* an operator combined the expression with a wider one without padding
          illegal    \* the last step was an adapt() on a rule that had already been used: it must raise, the history ends
vars == <<done, nrand, depW, ruleW, ruleAt, exprW, exprBad, illegal>>

DoneSet == {done[i] : i \in 1..Len(done)}
Enabled(s) == s \notin DoneSet /\ \A p \in Before : p[2] = s => p[1] \in DoneSet

Init == done = <<>> /\ nrand = 0 /\ depW = -1 /\ ruleW = -1 /\ ruleAt = -1 /\ exprW = -1 /\ exprBad = FALSE /\ illegal = FALSE

\* C13: "declaring adaptation after the rule was used" is illegal - the rule's expansion (DecRule.roaffine) exists from its
\* first use on, also when the rule had no adaptation yet (OptionalUses: a use no later step depends on, e.g. z*y or y + 0)
Do(s) ==
    /\ ~illegal
    /\ Enabled(s)
    /\ illegal' = (s \in AdaptSteps /\ ruleW # -1)
    /\ done' = Append(done, s)
    /\ nrand' = IF s \in DOMAIN RvarSteps THEN nrand + RvarSteps[s] ELSE nrand
    /\ depW' = IF s \in AdaptSteps /\ depW = -1 THEN nrand
               ELSE IF s \in AdaptSteps /\ PadRule THEN nrand ELSE depW
    /\ IF s \in RuleUses /\ ruleW = -1
         THEN /\ ruleW' = (IF PadRule THEN nrand ELSE depW) /\ ruleAt' = nrand
         ELSE UNCHANGED <<ruleW, ruleAt>>
    /\ exprW' = IF s = ExprMake THEN nrand ELSE exprW
    /\ exprBad' = (exprBad \/ (s \in ExprUses /\ exprW # nrand /\ ~PadExpr))

Next == \E s \in Steps : Do(s)
Spec == Init /\ [][Next]_vars

Complete == illegal \/ DoneSet = Steps
\* C13 / C09: the flat dependency mask is read at the width of the layout it is used in
MaskAligned == ruleW # -1 => ruleW = ruleAt
\* C05 / C09: an expression object means the same after the layout grew
ExprAligned == ~exprBad
\* every legal order ends (no deadlock before completion)
Progress == ~Complete => \E s \in Steps : Enabled(s)

Export == Complete => PrintT(ToJson([order |-> done, illegal |-> illegal, lateRule |-> (depW # -1 /\ \E i \in 1..Len(done) : done[i] \in DOMAIN RvarSteps /\ \E j \in 1..(i-1) : done[j] \in AdaptSteps),
                                     lateExpr |-> (\E i \in 1..Len(done) : done[i] \in DOMAIN RvarSteps /\ \E j \in 1..(i-1) : done[j] = ExprMake)]))
=============================================================================
