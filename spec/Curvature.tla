----------------------------- MODULE Curvature -----------------------------
(***************************************************************************)
(* Sign / multiplier calculus of convex and concave expressions and the    *)
(* acceptance decision of constraints and objectives, transcribed from     *)
(*   lp.py  Convex (2406-2593), PiecewiseConvex (2595-2693),               *)
(*          PerspConvex (2696-2768), DecAffine.__le__/__ge__/__eq__        *)
(*          (4314-4378), DecConvex (4434-4485), ExpPiecewiseConvex         *)
(*          (4562-4643), DecPerspConvex (4646-4692),                       *)
(*          Affine.__le__/__ge__/__eq__ (2336-2364),                       *)
(*   lp/socp/gcp.Model.do_math (objective epigraph `vars[0] - sign*obj >= 0`*)
(*          and the `1/constr.multiplier` of the cone encodings),          *)
(*   ro.Model.min/max/st/do_math, dro.Model.min/max/st/do_math.            *)
(*                                                                         *)
(* The state is implementation shaped: `reg` holds the registers of the    *)
(* expression object (sign, multiplier, affine_out or the common offset of *)
(* the pieces, sum_axis, whether the object still carries affine_scale);   *)
(* one action per dunder.  Ghost `gh` carries what the user wrote: the     *)
(* expression denotes  K * f(in) + c + t*T  (f the atom as documented,     *)
(* T the free scalar variable, summed over the entries after .sum()).      *)
(* Numbers are integers scaled by S = 2^MaxLen (all scalars are dyadic).   *)
(*                                                                         *)
(* Terminal actions compare / use the expression as an objective and record*)
(* the stage at which the code rejects ("op" the comparison operator,      *)
(* "st" st()/min()/max(), "math" inside do_math(), "ok" a compiled program)*)
(* together with the emitted <<multiplier, affine_out>> and the ideal      *)
(* verdict.  Fixed \subseteq {"lateobj","pwcheck","pwzero","zerodiv",      *)
(* "dropersp","pwconst","perspcs"} selects the transcription of the        *)
(* repaired code per defect;                                               *)
(* the ideal invariants are checked as  Inv \/ Known_k  where Known_k is   *)
(* the exact trigger of a defect that is not (yet) repaired.               *)
(***************************************************************************)
EXTENDS Naturals, Integers, Sequences, FiniteSets, TLC, Json

CONSTANTS MaxLen,     \* bound on the number of chain operations
          MinLen,     \* terminals are enabled from this chain length on (0 unless simulating)
          S,          \* scale = 2^MaxLen
          NVec,       \* number of entries of the argument when .sum() is used
          FrontEnds,  \* subset of {"ro","dro"}
          ClassNames, \* subset of the names in AllClasses
          Scalars,    \* set of <<num, den>>, den \in {1,2}
          Fixed,      \* names of repaired defects (see above)
          ExportMode  \* "none" | "terminals" (every terminal state) | "chains" (no products) | "known"

VARIABLES fe,     \* front end
          cls,    \* atom class (record of AllClasses)
          mode,   \* "chain" | "done" | "bilinear"
          reg,    \* registers of the expression object
          gh,     \* ghost meaning
          hist,   \* chain of dunder calls, for export
          term    \* terminal record (NoTerm while building)

vars == <<fe, cls, mode, reg, gh, hist, term>>

-----------------------------------------------------------------------------
(* Atom classes = the case analysis the code makes on xtype.
   nat : +1 the atom is convex, -1 concave (initial sign register)
   div : the cone encoding divides affine_out by the multiplier at formulation
         (gcp.py 'X','L','P','F','N', PCvxConstr; socp.py 'T')
   sum : .sum() is defined (Convex.sum: xtype in 'XL'; inherited by PerspConvex)
   cp  : one piece of the piecewise function is a number (its `piece <= 0` is a Python bool when no variable was added)
   cs  : the scale of the perspective is a number (dro.Model.ro_to_roc reshapes it) *)
AllClasses == {
  [fam |-> "Convex",       name |-> "cvx_lin",     nat |->  1, div |-> FALSE, sum |-> FALSE, cp |-> FALSE, cs |-> FALSE],  \* A M I E G
  [fam |-> "Convex",       name |-> "cvx_sq",      nat |->  1, div |-> FALSE, sum |-> FALSE, cp |-> FALSE, cs |-> FALSE],  \* S Q (multiplier = sqrt)
  [fam |-> "Convex",       name |-> "ccv_sq",      nat |-> -1, div |-> FALSE, sum |-> FALSE, cp |-> FALSE, cs |-> FALSE],  \* quad with NSD matrix
  [fam |-> "Convex",       name |-> "ccv_lin",     nat |-> -1, div |-> FALSE, sum |-> FALSE, cp |-> FALSE, cs |-> FALSE],  \* C gmean
  [fam |-> "Convex",       name |-> "cvx_div",     nat |->  1, div |-> TRUE,  sum |-> FALSE, cp |-> FALSE, cs |-> FALSE],  \* T N F
  [fam |-> "Convex",       name |-> "ccv_div",     nat |-> -1, div |-> TRUE,  sum |-> FALSE, cp |-> FALSE, cs |-> FALSE],  \* P entropy
  [fam |-> "Convex",       name |-> "cvx_div_sum", nat |->  1, div |-> TRUE,  sum |-> TRUE,  cp |-> FALSE, cs |-> FALSE],   \* X exp
  [fam |-> "Convex",       name |-> "ccv_div_sum", nat |-> -1, div |-> TRUE,  sum |-> TRUE,  cp |-> FALSE, cs |-> FALSE],   \* L log
  [fam |-> "Persp",        name |-> "pcvx",        nat |->  1, div |-> TRUE,  sum |-> TRUE,  cp |-> FALSE, cs |-> FALSE],   \* pexp
  [fam |-> "Persp",        name |-> "pccv",        nat |-> -1, div |-> TRUE,  sum |-> TRUE,  cp |-> FALSE, cs |-> FALSE],   \* plog
  [fam |-> "Persp",        name |-> "pcvx_cs",     nat |->  1, div |-> TRUE,  sum |-> TRUE,  cp |-> FALSE, cs |-> TRUE],   \* pexp, constant scale
  [fam |-> "Persp",        name |-> "pccv_cs",     nat |-> -1, div |-> TRUE,  sum |-> TRUE,  cp |-> FALSE, cs |-> TRUE],   \* plog, constant scale
  [fam |-> "Piecewise",    name |-> "pwmax_c",     nat |->  1, div |-> FALSE, sum |-> FALSE, cp |-> TRUE,  cs |-> FALSE],  \* maxof with a numeric piece
  [fam |-> "Piecewise",    name |-> "pwmin_c",     nat |-> -1, div |-> FALSE, sum |-> FALSE, cp |-> TRUE,  cs |-> FALSE],  \* minof with a numeric piece
  [fam |-> "Piecewise",    name |-> "pwmax",       nat |->  1, div |-> FALSE, sum |-> FALSE, cp |-> FALSE, cs |-> FALSE],  \* maxof
  [fam |-> "Piecewise",    name |-> "pwmin",       nat |-> -1, div |-> FALSE, sum |-> FALSE, cp |-> FALSE, cs |-> FALSE],  \* minof
  [fam |-> "ExpPiecewise", name |-> "epwmax",      nat |->  1, div |-> FALSE, sum |-> FALSE, cp |-> FALSE, cs |-> FALSE],  \* E(maxof)
  [fam |-> "ExpPiecewise", name |-> "epwmin",      nat |-> -1, div |-> FALSE, sum |-> FALSE, cp |-> FALSE, cs |-> FALSE]   \* E(minof)
}

ClassesOf(f) == {c \in AllClasses : c.name \in ClassNames /\ (c.fam = "ExpPiecewise" => f = "dro")}

IsPW    == cls.fam \in {"Piecewise", "ExpPiecewise"}
IsPersp == cls.fam = "Persp"
FamName == IF fe = "dro" /\ cls.fam = "Convex" THEN "DecConvex"
           ELSE IF fe = "dro" /\ cls.fam = "Persp" THEN "DecPersp" ELSE cls.fam

Sgn(x) == IF x > 0 THEN 1 ELSE IF x < 0 THEN -1 ELSE 0
Abs(x) == IF x < 0 THEN -x ELSE x
Times(v, k) == (v * k[1]) \div k[2]        \* exact: at most MaxLen halvings of multiples of S
KSgn(k) == Sgn(k[1])
KAbs(k) == <<Abs(k[1]), k[2]>>

\* operands: "c" the constant 1, "t" the free scalar variable T;  <<constant part, coefficient of T>>
Opnd(o) == IF o = "c" THEN <<S, 0>> ELSE <<0, S>>
Operands == {"c", "t"}

-----------------------------------------------------------------------------
(* The dunder methods, as register transformers *)

\* Convex.__neg__ 2455 / PerspConvex.__neg__ 2723 / DecConvex.__neg__ 4447: sum_axis is not forwarded
CvxNeg(r) == [r EXCEPT !.sign = -r.sign, !.oc = -r.oc, !.ot = -r.ot, !.sumreg = FALSE]
\* after a repaired multiplication by zero the object is an ordinary affine expression
AffNeg(r) == [r EXCEPT !.oc = -r.oc, !.ot = -r.ot]
\* PiecewiseConvex.__neg__ 2614 / ExpPiecewiseConvex.__neg__ 4602: only the sign flips
PwNeg(r)  == [r EXCEPT !.sign = -r.sign]
Neg(r) == IF r.aff THEN AffNeg(r) ELSE IF IsPW THEN PwNeg(r) ELSE CvxNeg(r)

\* Convex.__add__ 2461: affine_out + other  (sum_axis not forwarded)
CvxAdd(r, d) == [r EXCEPT !.oc = @ + d[1], !.ot = @ + d[2], !.sumreg = FALSE, !.num = r.num /\ d[2] = 0]
\* PiecewiseConvex.__add__ 2618: every piece + other*self.sign
\*   (a numeric piece stays a Python number until a variable is added: register num)
PwAdd(r, d)  == [r EXCEPT !.oc = @ + d[1] * r.sign, !.ot = @ + d[2] * r.sign, !.num = r.num /\ d[2] = 0]
Add(r, d) == IF r.aff \/ ~IsPW THEN CvxAdd(r, d) ELSE PwAdd(r, d)

\* __sub__ = __add__(-other) ;  __rsub__ = (-self).__add__(other)   (all families)
Sub(r, d)  == Add(r, <<-d[1], -d[2]>>)
RSub(r, d) == Add(Neg(r), d)

\* Convex.__mul__ 2495: multiplier*|k| (sqrt for 'SQ': the register m is kept squared here),
\*   k*affine_out, np.sign(k)*sign, sum_axis not forwarded
CvxMul(r, k) == [r EXCEPT !.sign = KSgn(k) * r.sign, !.m = Times(r.m, KAbs(k)),
                          !.oc = Times(r.oc, k), !.ot = Times(r.ot, k), !.sumreg = FALSE]
\* PiecewiseConvex.__mul__ 2646: pieces*|k|, sign*np.sign(k)
PwMul(r, k)  == [r EXCEPT !.sign = KSgn(k) * r.sign, !.m = Times(r.m, KAbs(k)),
                          !.oc = Times(r.oc, KAbs(k)), !.ot = Times(r.ot, KAbs(k))]
\* repaired ("pwzero"): a piecewise object with sign 0 is the common affine function of its pieces: __neg__ negates
\*   the pieces, __add__ adds the operand itself, __mul__ multiplies by the signed scalar (register aff).
\*   ("zerodiv" is repaired in the encoders, see FormStage: the object and its registers stay as they are.)
ZeroFixed == IsPW /\ "pwzero" \in Fixed
AffZero(r)   == [r EXCEPT !.sign = 0, !.m = 0, !.oc = 0, !.ot = 0, !.sumreg = FALSE, !.persp = FALSE, !.aff = TRUE]
AffMul(r, k) == [r EXCEPT !.oc = Times(r.oc, k), !.ot = Times(r.ot, k)]
Mul(r, k) == IF r.aff THEN AffMul(r, k)
             ELSE IF k[1] = 0 /\ ZeroFixed THEN AffZero(r)
             ELSE IF IsPW THEN PwMul(r, k) ELSE CvxMul(r, k)

\* Convex.sum 2537 (xtype in 'XL'), inherited unchanged by PerspConvex: returns a plain Convex
\*   with affine_out.sum(), sum_axis recorded, affine_scale lost
CvxSum(r) == [r EXCEPT !.oc = NVec * r.oc, !.ot = NVec * r.ot, !.sumreg = TRUE, !.persp = FALSE]

\* ghost algebra
GNeg(g)    == [g EXCEPT !.K = -g.K, !.c = -g.c, !.t = -g.t]
GAdd(g, d) == [g EXCEPT !.c = @ + d[1], !.t = @ + d[2]]
GMul(g, k) == [g EXCEPT !.K = Times(g.K, k), !.c = Times(g.c, k), !.t = Times(g.t, k)]
GSum(g)    == [g EXCEPT !.c = NVec * g.c, !.t = NVec * g.t, !.sum = TRUE]

C == gh.K * cls.nat          \* the expression is  C * g(in) + offset  with g convex

-----------------------------------------------------------------------------
NoEm   == [m |-> 0, oc |-> 0, ot |-> 0, ov |-> 0, persp |-> FALSE, sum |-> FALSE]
NoTerm == [op |-> "none", o |-> "-", stage |-> "-", em |-> NoEm, accept |-> FALSE, dontcare |-> FALSE,
           want |-> NoEm, known |-> <<>>]

Init ==
    /\ fe \in FrontEnds
    /\ \/ /\ mode = "chain"
          /\ cls \in ClassesOf(fe)
       \/ /\ mode = "bilinear"
          /\ cls = CHOOSE c \in AllClasses : c.name = "cvx_lin"
    /\ reg = [sign |-> cls.nat, m |-> S, oc |-> 0, ot |-> 0, sumreg |-> FALSE, persp |-> (cls.fam = "Persp"),
              aff |-> FALSE, num |-> cls.cp]
    /\ gh = [K |-> S, c |-> 0, t |-> 0, sum |-> FALSE]
    /\ hist = <<>>
    /\ term = NoTerm

More == mode = "chain" /\ Len(hist) < MaxLen

Step(r, g, h) ==
    /\ reg' = r /\ gh' = g /\ hist' = Append(hist, h)
    /\ UNCHANGED <<fe, cls, mode, term>>

DoNeg  == More /\ Step(Neg(reg), GNeg(gh), [act |-> "Neg"])
DoMulL == More /\ \E k \in Scalars : Step(Mul(reg, k), GMul(gh, k), [act |-> "MulL", k |-> k])   \* e * k
DoMulR == More /\ \E k \in Scalars : Step(Mul(reg, k), GMul(gh, k), [act |-> "MulR", k |-> k])   \* k * e  (__rmul__)
DoAddR == More /\ \E o \in Operands : Step(Add(reg, Opnd(o)), GAdd(gh, Opnd(o)), [act |-> "AddR", o |-> o])  \* e + o
DoAddL == More /\ \E o \in Operands : Step(Add(reg, Opnd(o)), GAdd(gh, Opnd(o)), [act |-> "AddL", o |-> o])  \* o + e (__radd__ / Affine.__add__)
DoSub  == More /\ \E o \in Operands : Step(Sub(reg, Opnd(o)), GAdd(gh, <<-Opnd(o)[1], -Opnd(o)[2]>>), [act |-> "Sub", o |-> o])   \* e - o
DoRSub == More /\ \E o \in Operands : Step(RSub(reg, Opnd(o)), GAdd(GNeg(gh), Opnd(o)), [act |-> "RSub", o |-> o])                \* o - e
DoSum  == More /\ cls.sum /\ fe = "ro" /\ ~gh.sum /\ Step(CvxSum(reg), GSum(gh), [act |-> "Sum"])  \* e.sum()

-----------------------------------------------------------------------------
(* Terminal actions *)

LeType(op) == op \in {"LeR", "GeL"}      \* the written relation is  expr <= operand
GeType(op) == op \in {"GeR", "LeL"}      \* the written relation is  expr >= operand
ObjType(op) == op \in {"AsMin", "AsMax"}
EqType(op) == op \in {"EqR", "EqL"}

\* formulation stage of an accepted convex constraint: division by a zero multiplier
FormStage(x) == IF ~IsPW /\ cls.div /\ x.m = 0 /\ "zerodiv" \notin Fixed THEN "math" ELSE "ok"

\* DecAffine.__le__/__ge__ 4335-4340, 4363-4368 and the dro objective epigraph (dro.py:429) return the
\* pieces of a (Exp)PiecewiseConvex without looking at its sign
Unchecked(op, o) == /\ fe = "dro" /\ IsPW /\ "pwcheck" \notin Fixed
                    /\ \/ (op \in {"LeL", "GeL"} /\ o = "t")
                       \/ (ObjType(op) /\ "lateobj" \notin Fixed)    \* repaired min()/max() test every family

\* expression whose sign is inspected, per written form:
\*   e <= o : left = self - o            (Convex/PiecewiseConvex/PerspConvex.__le__, ExpPiecewiseConvex.__le__)
\*   e >= o : right = o - self           (…__ge__;  o - self is __rsub__ or Affine.__sub__ -> (-self)+o)
\*   o <= e : constant o: Python reflects to e.__ge__(o);  variable o: Affine.__le__ / DecAffine.__le__ :
\*            left = o - e = (-e) + o, then left.__le__(0)
\*   o >= e : constant: e.__le__(o);  variable: Affine.__ge__ / DecAffine.__ge__: left = e - o
Inspected(op, o) == IF LeType(op) THEN Sub(reg, Opnd(o)) ELSE RSub(reg, Opnd(o))

\* an affine object (after the repaired 0*e) has no atom term: persp / sum are immaterial
EmOf(x, ov) == [m |-> x.m, oc |-> x.oc, ot |-> x.ot, ov |-> ov,
                persp |-> IF x.aff THEN IsPersp ELSE x.persp, sum |-> IF x.aff THEN gh.sum ELSE FALSE]

\* a numeric piece plus a numeric operand: `piece <= 0` is a bool, which ro st() refuses (TypeError) and dro st()
\* appends to all_constr (AttributeError in do_math);  a numeric scale breaks dro.Model.ro_to_roc
CmpStage(x) ==
    IF x.num /\ "pwconst" \notin Fixed THEN (IF fe = "ro" THEN "st" ELSE "math")
    ELSE IF x.aff THEN "ok"
    ELSE IF cls.cs /\ fe = "dro" /\ x.persp /\ "perspcs" \notin Fixed THEN "math"
    ELSE FormStage(x)

CmpEval(op, o) ==
    LET x == Inspected(op, o) IN
    [stage |-> IF ~x.aff /\ ~Unchecked(op, o) /\ x.sign = -1 THEN "op" ELSE CmpStage(x),
     em |-> EmOf(x, 0)]

\* equality:  Convex.__eq__ raises (2533); PiecewiseConvex has no __eq__ (Python falls back to identity: False,
\*   refused by st()); DecAffine.__eq__ returns None for a convex left (refused by dro st())
EqEval(op, o) ==
    [stage |-> IF IsPW THEN "st"
               ELSE IF fe = "dro" /\ op = "EqL" /\ o = "t" THEN "st" ELSE "op",
     em |-> NoEm]

\* objective: min()/max() store the expression (ro.py:119-179, dro.py:231-283); do_math builds the epigraph
\*   ro, Convex:    vars[0] - sign*obj >= 0     -> Convex.__ge__(0) inspects sign of sign*obj
\*   ro, Piecewise: vars[0] >= sign*obj         -> Affine.__ge__ -> PiecewiseConvex.__le__(0)
\*   dro:           dec_vars[0] >= obj*sign     -> DecAffine.__ge__ (no sign test for piecewise);
\*                  a DecPCvxConstr is not routed (dro.py:436-438 AttributeError)
ObjEval(op) ==
    LET sg == IF op = "AsMin" THEN 1 ELSE -1
        x == Mul(reg, <<sg, 1>>)
        ov == IF IsPW /\ ~x.aff THEN -S * x.sign ELSE -S       \* piecewise: pieces + (-v0)*sign
    IN
    [stage |-> IF x.aff THEN "ok"
               ELSE IF ~Unchecked(op, "-") /\ x.sign = -1
               THEN (IF "lateobj" \in Fixed THEN "st" ELSE "math")
               ELSE IF fe = "dro" /\ IsPersp /\ "dropersp" \notin Fixed THEN "math"
               ELSE IF fe = "dro" /\ cls.cs /\ x.persp /\ "perspcs" \notin Fixed THEN "math"   \* routed, then ro_to_roc
               ELSE FormStage(x),
     em |-> EmOf(x, ov)]

\* ideal
\* equality with a vanished atom term (C = 0) is an affine equality: either outcome is fine
DontCare(op) == EqType(op) /\ C = 0
IdealAccept(op) == IF LeType(op) \/ op = "AsMin" THEN C >= 0
                   ELSE IF GeType(op) \/ op = "AsMax" THEN C <= 0
                   ELSE FALSE
IdealWant(op, o) ==
    LET d == Opnd(o) IN
    IF LeType(op) THEN [m |-> C, oc |-> gh.c - d[1], ot |-> gh.t - d[2], ov |-> 0, persp |-> IsPersp, sum |-> gh.sum]
    ELSE IF GeType(op) THEN [m |-> -C, oc |-> d[1] - gh.c, ot |-> d[2] - gh.t, ov |-> 0, persp |-> IsPersp, sum |-> gh.sum]
    ELSE IF op = "AsMin" THEN [m |-> C, oc |-> gh.c, ot |-> gh.t, ov |-> -S, persp |-> IsPersp, sum |-> gh.sum]
    ELSE IF op = "AsMax" THEN [m |-> -C, oc |-> -gh.c, ot |-> -gh.t, ov |-> -S, persp |-> IsPersp, sum |-> gh.sum]
    ELSE NoEm

\* named triggers of the defects that are not repaired
KnownLateObj(op, ev)    == "lateobj" \notin Fixed /\ ObjType(op) /\ ~IdealAccept(op) /\ ev.stage = "math"
KnownPwNoCheck(op, o)   == Unchecked(op, o)
KnownPwZero             == "pwzero" \notin Fixed /\ IsPW /\ reg.sign = 0
KnownPwConst(op, o)     == "pwconst" \notin Fixed /\ (LeType(op) \/ GeType(op)) /\ reg.num /\ o = "c"
KnownPerspCs(op)        == "perspcs" \notin Fixed /\ cls.cs /\ fe = "dro" /\ reg.persp /\ ~EqType(op)
KnownZeroDiv(op, ev)    == "zerodiv" \notin Fixed /\ ~IsPW /\ cls.div /\ ~EqType(op) /\ ev.em.m = 0 /\ ev.stage = "math"
KnownDroPerspObj(op)    == "dropersp" \notin Fixed /\ fe = "dro" /\ IsPersp /\ ObjType(op)
KnownSumDropped         == gh.sum      \* C06 (defect 7): sum_axis is never read, affine_scale is lost

KnownSeq(op, o, ev) ==
    SelectSeq(<<"lateobj", "pwcheck", "pwzero", "zerodiv", "dropersp", "pwconst", "perspcs", "sum">>,
              LAMBDA n : \/ (n = "lateobj"  /\ KnownLateObj(op, ev))
                         \/ (n = "pwcheck"  /\ KnownPwNoCheck(op, o))
                         \/ (n = "pwzero"   /\ KnownPwZero)
                         \/ (n = "zerodiv"  /\ KnownZeroDiv(op, ev))
                         \/ (n = "dropersp" /\ KnownDroPerspObj(op))
                         \/ (n = "pwconst"  /\ KnownPwConst(op, o))
                         \/ (n = "perspcs"  /\ KnownPerspCs(op))
                         \/ (n = "sum"      /\ KnownSumDropped))

TermOK == mode = "chain" /\ Len(hist) >= MinLen

Terminal(op, o, ev) ==
    /\ mode' = "done"
    /\ term' = [op |-> op, o |-> o, stage |-> ev.stage, em |-> ev.em,
                accept |-> IdealAccept(op), dontcare |-> DontCare(op), want |-> IdealWant(op, o),
                known |-> KnownSeq(op, o, ev)]
    /\ UNCHANGED <<fe, cls, reg, gh, hist>>

DoLeR == TermOK /\ \E o \in Operands : Terminal("LeR", o, CmpEval("LeR", o))     \* e <= o
DoGeR == TermOK /\ \E o \in Operands : Terminal("GeR", o, CmpEval("GeR", o))     \* e >= o
DoLeL == TermOK /\ \E o \in Operands : Terminal("LeL", o, CmpEval("LeL", o))     \* o <= e
DoGeL == TermOK /\ \E o \in Operands : Terminal("GeL", o, CmpEval("GeL", o))     \* o >= e
DoEqR == TermOK /\ \E o \in Operands : Terminal("EqR", o, EqEval("EqR", o))      \* e == o
DoEqL == TermOK /\ \E o \in Operands : Terminal("EqL", o, EqEval("EqL", o))      \* o == e
DoAsMin == TermOK /\ Terminal("AsMin", "-", ObjEval("AsMin"))
DoAsMax == TermOK /\ Terminal("AsMax", "-", ObjEval("AsMax"))

-----------------------------------------------------------------------------
(* Bilinear attempts: l * r and l @ r of two non-constant operands.
   kinds: dec (static decision), rand, roaff (dec*rand), cvx (a convex atom), pw (maxof),
          ldr (ro.Model.ldr adapted to rand), adapt (dro decision affinely adapted), evt (dro event-wise decision) *)
KindsOf(f) == {"dec", "rand", "roaff", "cvx", "pw"} \cup (IF f = "ro" THEN {"ldr"} ELSE {"adapt", "evt"})
IsDecLike(k) == k \in {"dec", "evt"}

\* ideal: the only legal product of two expressions is (static or event-wise) decision x random
IdealProduct(l, r) == (IsDecLike(l) /\ r = "rand") \/ (l = "rand" /\ IsDecLike(r))

\* transcription: Affine.__mul__/__matmul__ 2130-2260 (same mtype -> TypeError; 'VR' x 'SM' -> RoAffine; anything
\*   else -> check_numeric raises), DecAffine.__mul__ 3882-3894 (not fixed -> TypeError), DecRule.__mul__ 5127
\*   (check_numeric), Convex/PiecewiseConvex.__mul__ (Real only), RoAffine.__mul__ 2904 (affine*other raises)
AffKind(k) == k \in {"dec", "rand", "adapt", "evt"}
MType(k) == IF k = "rand" THEN "S" ELSE "R"
CodeProduct(l, r) ==
    IF AffKind(l) /\ AffKind(r)
    THEN IF MType(l) = MType(r) THEN FALSE
         ELSE ~("adapt" \in {l, r})
    ELSE FALSE

DoProduct ==
    /\ mode = "bilinear"
    /\ \E l \in KindsOf(fe), r \in KindsOf(fe), op \in {"mul", "matmul"} :
          /\ term' = [NoTerm EXCEPT !.op = "Product", !.o = op,
                                    !.stage = IF CodeProduct(l, r) THEN "ok" ELSE "op",
                                    !.accept = IdealProduct(l, r)]
          /\ hist' = <<[act |-> "Product", l |-> l, r |-> r, op |-> op]>>
    /\ mode' = "done"
    /\ UNCHANGED <<fe, cls, reg, gh>>

Next == \/ DoNeg \/ DoMulL \/ DoMulR \/ DoAddR \/ DoAddL \/ DoSub \/ DoRSub \/ DoSum
        \/ DoLeR \/ DoGeR \/ DoLeL \/ DoGeL \/ DoEqR \/ DoEqL \/ DoAsMin \/ DoAsMax
        \/ DoProduct

Spec == Init /\ [][Next]_vars

\* fingerprint without the history (exhaustive checking of long chains); the length keeps the depth bound sound
NoHistView == <<fe, cls, mode, reg, gh, term, Len(hist)>>

-----------------------------------------------------------------------------
(* Properties *)

TypeOK == /\ fe \in {"ro", "dro"}
          /\ mode \in {"chain", "done", "bilinear"}
          /\ reg.sign \in {-1, 0, 1}
          /\ reg.m >= 0
          /\ term.stage \in {"-", "op", "st", "math", "ok"}

IsTerm == mode = "done" /\ term.op \notin {"none", "Product"} /\ ~term.dontcare
Has(n) == \E i \in 1..Len(term.known) : term.known[i] = n

\* C10: the sign/multiplier registers denote the curvature coefficient of what was written
SignTracksCurvature == mode \in {"chain", "done"} => (reg.sign * reg.m = C /\ (reg.sign = -1 => C <= 0))

\* C10: the offset register denotes the written offset
OffsetTracksMeaning ==
    mode \in {"chain", "done"} =>
        \/ IF IsPW /\ ~reg.aff THEN reg.sign * reg.oc = gh.c /\ reg.sign * reg.ot = gh.t
                               ELSE reg.oc = gh.c /\ reg.ot = gh.t
        \/ KnownPwZero

\* C10: nothing non-convex is compiled ...
NoUnsoundAccept == IsTerm => (term.stage = "ok" => term.accept) \/ Has("pwcheck")
\* ... and every convex use is (accept <=> convex, the weaker direction)
NoOverReject    == IsTerm => (term.accept => term.stage = "ok") \/ Has("zerodiv") \/ Has("dropersp")
                                                                  \/ Has("pwconst") \/ Has("perspcs")
AcceptIffConvex == NoUnsoundAccept /\ NoOverReject

\* C10: rejection happens no later than st()/min()/max()
TimelyReject == IsTerm => term.stage # "math" \/ Has("lateobj") \/ Has("zerodiv") \/ Has("dropersp")
                                                 \/ Has("pwconst") \/ Has("perspcs")

\* C10: the emitted <<multiplier, affine_out>> denote exactly the written relation
MeaningPreserved ==
    IsTerm => (term.stage = "ok" /\ term.accept => term.em = term.want) \/ Has("pwzero") \/ Has("sum")

\* C10: products of two decision expressions, two random expressions, a decision rule and a random variable raise
BilinearRaises == (mode = "done" /\ term.op = "Product") => (term.stage = "ok" => term.accept)
BilinearLegalAccepted == (mode = "done" /\ term.op = "Product") => (term.accept => term.stage = "ok")

\* the same invariants without the named exceptions (used to show that TLC finds each defect on the transcription)
RawNoUnsoundAccept  == IsTerm => (term.stage = "ok" => term.accept)
RawNoOverReject     == IsTerm => (term.accept => term.stage = "ok")
RawTimelyReject     == IsTerm => term.stage # "math"
RawMeaningPreserved == IsTerm => (term.stage = "ok" /\ term.accept => term.em = term.want)
RawOffsetTracksMeaning ==
    mode \in {"chain", "done"} =>
        IF IsPW /\ ~reg.aff THEN reg.sign * reg.oc = gh.c /\ reg.sign * reg.ot = gh.t
                            ELSE reg.oc = gh.c /\ reg.ot = gh.t

-----------------------------------------------------------------------------
(* Export for the replay (spec -> code) *)
ExportRec ==
    [fe |-> fe, fam |-> FamName, cls |-> cls.name, nat |-> cls.nat, S |-> S, nvec |-> NVec,
     hist |-> hist,
     op |-> term.op, o |-> term.o,
     code |-> [stage |-> term.stage, em |-> term.em],
     ideal |-> [accept |-> term.accept, dontcare |-> term.dontcare, want |-> term.want],
     ghost |-> gh, reg |-> reg, known |-> term.known]

Export == (mode = "done" /\ (\/ ExportMode = "terminals"
                             \/ (ExportMode = "chains" /\ term.op # "Product")
                             \/ (ExportMode = "known" /\ Len(term.known) > 0)))
          => PrintT(ToJson(ExportRec))
=============================================================================
