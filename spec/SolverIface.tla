---------------------------- MODULE SolverIface ----------------------------
(***************************************************************************)
(* Contract of a solver interface (C11).                                   *)
(*                                                                         *)
(*   Submit(iface, P)  ->  Return(iface, ok(x, v))  with  x |= P, v = c.x  *)
(*                     |   Return(iface, fail)      objval = NaN, x = None,*)
(*                                                  get() raises           *)
(* and, across interfaces able to solve P: all report a solution or none   *)
(* does, and the values agree.                                             *)
(*                                                                         *)
(* Generator mode: declarations (bound pattern and variable type per       *)
(* column, rows, objective) - the programs that exercise the translation   *)
(* of bounds, senses, integrality (binaries with user bounds) and cones.   *)
(* For all-integer declarations the exact optimum is computed by brute     *)
(* force.  Validator mode: one record per (program, interface) with the    *)
(* REAL standard form P (integer data) and what the interface returned     *)
(* (scaled integers): TLC decides x |= P exactly up to the rounding bound. *)
(***************************************************************************)
EXTENDS Integers, Sequences, FiniteSets, TLC, FiniteSetsExt, SequencesExt, Json

CONSTANTS NC, Patterns, VTypes, RowCoefs, ObjCoefs, Rhs, MaxRows, Results, SC

INF == 1000000
Pattern(k) ==
    CASE k = 1  -> <<-INF, INF>> [] k = 2  -> <<0, INF>>  [] k = 3  -> <<-INF, 0>> [] k = 4  -> <<1, INF>>
      [] k = 5  -> <<-1, INF>>   [] k = 6  -> <<-INF, 2>> [] k = 7  -> <<-1, 2>>   [] k = 8  -> <<0, 2>>
      [] k = 9  -> <<-2, 0>>     [] k = 10 -> <<1, 1>>    [] k = 11 -> <<0, 0>>    [] k = 12 -> <<-INF, -1>>
      [] k = 13 -> <<-2, -1>>    [] k = 14 -> <<0, 1>>    [] k = 15 -> <<-3, 3>>

Dot(u, v) == LET RECURSIVE S(_)
                 S(k) == IF k = 0 THEN 0 ELSE u[k] * v[k] + S(k - 1)
             IN S(Len(u))

UserRows == UNION {[1..n -> [coef : RowCoefs, sense : {0, 1}, rhs : Rhs]] : n \in 0..MaxRows}
Decls == [pats : [1..NC -> Patterns], vt : [1..NC -> VTypes], obj : ObjCoefs, rows : UserRows]

\* effective domain of a column: binaries are {0,1} intersected with the user bounds
Dom(d, j) ==
    LET lb == Pattern(d.pats[j])[1]
        ub == Pattern(d.pats[j])[2]
        lo == IF lb = -INF THEN -4 ELSE lb
        hi == IF ub = INF THEN 4 ELSE ub
    IN IF d.vt[j] = "B" THEN {v \in {0, 1} : v >= lb /\ v <= ub} ELSE lo..hi
AllInteger(d) == \A j \in 1..NC : d.vt[j] # "C"
Bounded(d) == \A j \in 1..NC : d.vt[j] = "B" \/ (Pattern(d.pats[j])[1] # -INF /\ Pattern(d.pats[j])[2] # INF)

RECURSIVE Points(_, _)
Points(d, j) == IF j = 0 THEN {<<>>} ELSE {Append(s, v) : s \in Points(d, j - 1), v \in Dom(d, j)}
RowOK(r, x) == IF r.sense = 1 THEN Dot(r.coef, x) = r.rhs ELSE Dot(r.coef, x) <= r.rhs
BruteOpt(d) ==   \* exact optimum of a bounded all-integer declaration
    LET F == {x \in Points(d, NC) : \A i \in 1..Len(d.rows) : RowOK(d.rows[i], x)} IN
    IF F = {} THEN [feasible |-> FALSE, val |-> 0] ELSE [feasible |-> TRUE, val |-> Min({Dot(d.obj, x) : x \in F})]

VARIABLES decl, res
vars == <<decl, res>>
Init == IF Results = {} THEN res = [tid |-> 0] /\ decl \in Decls
        ELSE res \in Results /\ decl = <<>>
Next == UNCHANGED vars
Spec == Init /\ [][Next]_vars

Export == res.tid # 0 \/
          LET exact == AllInteger(decl) /\ Bounded(decl)
              b == IF exact THEN BruteOpt(decl) ELSE [feasible |-> FALSE, val |-> 0]
          IN PrintT(ToJson([decl |-> decl, exact |-> exact, feasible |-> b.feasible, opt |-> b.val]))

-----------------------------------------------------------------------------
(* Validator: res = [tid, P = [lb, ub, A, sense, b, c, q, vt], x (scaled by SC), obj (scaled), tol] *)

Abs(v) == IF v < 0 THEN -v ELSE v
NearInt(v, tol) == LET r == v % SC IN r <= tol \/ SC - r <= tol

BoundsOK == \A j \in 1..Len(res.x) :
               /\ (res.P.lb[j] = -INF \/ res.x[j] >= SC * res.P.lb[j] - res.tol)
               /\ (res.P.ub[j] = INF \/ res.x[j] <= SC * res.P.ub[j] + res.tol)
               /\ (res.P.vt[j] = "B" => res.x[j] >= -res.tol /\ res.x[j] <= SC + res.tol)
RowsOK == \A i \in 1..Len(res.P.A) :
             LET v == Dot(res.P.A[i], res.x) - SC * res.P.b[i] IN
             IF res.P.sense[i] = 1 THEN Abs(v) <= res.rtol[i] ELSE v <= res.rtol[i]
IntegralOK == \A j \in 1..Len(res.x) : res.P.vt[j] # "C" => NearInt(res.x[j], res.tol)
ConesOK == \A k \in 1..Len(res.P.q) :
              LET qc == res.P.q[k]
                  h == res.x[qc[1]]
                  t == [i \in 1..(Len(qc) - 1) |-> res.x[qc[i + 1]]]
              IN /\ h >= -res.tol
                 /\ Dot(t, t) <= (h + res.ctol) * (h + res.ctol)
ObjOK == Abs(res.obj - Dot(res.P.c, res.x)) <= res.otol

Verdict == [tid |-> res.tid, bounds |-> BoundsOK, rows |-> RowsOK, integral |-> IntegralOK, cones |-> ConesOK, obj |-> ObjOK]
Validate == res.tid = 0 \/ PrintT(ToJson(Verdict))
=============================================================================
