----------------------------- MODULE Incremental -----------------------------
(***************************************************************************)
(* C09 / C19 for the deterministic model classes used directly (lp, socp,  *)
(* gcp) and for ro: "solving again after adding constraints or variables   *)
(* gives the same result as building the final model from scratch".        *)
(*                                                                         *)
(* Implementation shaped: every formulation allocates auxiliary variables  *)
(* behind the user's columns (self.last) and collects auxiliary rows and   *)
(* AUXILIARY BOUNDS in lists that the next formulation resets (aux_constr, *)
(* aux_bounds), next to the user's persistent lists (lin_constr, bounds).  *)
(* A later constraint shifts the auxiliary layout: anything that survived  *)
(* the reset then sits on other columns.  State: the persistent lists and  *)
(* the per-formulation lists; ghost: the declaration.  An item recorded in *)
(* a persistent list by a formulation (leak) breaks FreshEqualsIncremental.*)
(***************************************************************************)
EXTENDS Integers, Sequences, FiniteSets, TLC, Json

CONSTANTS Fronts, ObjAtoms, ConKinds, MaxAdds,
          NewVarBehindAux   \* TRUE: Model.dvar allocates at self.last (the code); FALSE: right after the last declared variable

\* what each layer can encode
Level(f) == CASE f = "lp" -> 1 [] f = "socp" -> 2 [] f \in {"gcp", "ro"} -> 3
Need(k) == CASE k \in {"lin", "abs", "newvar"} -> 1 [] k \in {"norm2", "square", "sumsqr", "power3"} -> 2 [] k \in {"exp", "softplus", "pnorm25"} -> 3
\* atoms whose encoding allocates auxiliary variables / auxiliary bounds
AuxVars(k) == CASE k = "lin" -> 0 [] k = "newvar" -> 0 [] k = "softplus" -> 4 [] k = "pnorm25" -> 6 [] k = "abs" -> 0 [] k = "norm2" -> 3 [] k = "square" -> 6 [] k = "sumsqr" -> 4 [] k = "power3" -> 4 [] k = "exp" -> 4
AuxBounds(k) == k \in {"square", "sumsqr", "norm2", "power3"}

VARIABLES front, obj, decl,     \* ghost: the declaration (sequence of constraint kinds)
          persistent,           \* number of bound objects in the model's persistent list
          auxb, auxcols,        \* auxiliary bounds / columns of the LAST formulation
          formulated,           \* the declaration the cached formula was compiled from
          ucols, dead,          \* user columns; columns left unused between user variables (see AddVar)
          stale,                \* persistent items that still name auxiliary columns of an EARLIER formulation (gcp: exp_constr of softplus / float p-norm)
          aliased,              \* a user variable was placed on a column that a stale item names
          hist
vars == <<front, obj, decl, persistent, auxb, auxcols, formulated, ucols, dead, stale, aliased, hist>>

Init == /\ front \in Fronts /\ obj \in {o \in ObjAtoms : Need(o) <= Level(front)}
        /\ decl = <<>> /\ persistent = 1 /\ auxb = 0 /\ auxcols = 0 /\ formulated = <<"none">> /\ hist = <<>>
        /\ ucols = 2 /\ dead = 0 /\ stale = FALSE /\ aliased = FALSE

Add(k) == /\ Len(decl) < MaxAdds /\ Need(k) <= Level(front)
          /\ decl' = Append(decl, k) /\ hist' = Append(hist, [act |-> "add", kind |-> k])
          \* a variable declared after a formulation is allocated at self.last, i.e. BEHIND the auxiliary block of that
          \* formulation: the block becomes dead columns, and no stale item can name the new variable's column
          /\ IF k = "newvar" THEN ucols' = ucols + 1 /\ dead' = dead + auxcols /\ aliased' = (aliased \/ (stale /\ ~NewVarBehindAux))
                           ELSE UNCHANGED <<ucols, dead, aliased>>
          /\ UNCHANGED <<front, obj, persistent, auxb, auxcols, formulated, stale>>
\* do_math: the per-formulation lists are rebuilt from the declaration; the persistent list is untouched
Formulate == /\ formulated # decl
             /\ auxcols' = AuxVars(obj) + (IF decl = <<>> THEN 0 ELSE LET S[i \in 0..Len(decl)] == IF i = 0 THEN 0 ELSE S[i - 1] + AuxVars(decl[i]) IN S[Len(decl)])
             /\ auxb' = (IF AuxBounds(obj) THEN 1 ELSE 0) + Cardinality({i \in 1..Len(decl) : AuxBounds(decl[i])})
             /\ formulated' = decl /\ hist' = Append(hist, [act |-> "solve", kind |-> ""])
             \* a bare gcp model appends the exponential cones of softplus / float p-norm items to its persistent list at
             \* every formulation: they name auxiliary columns of THIS formulation and survive the next one
             /\ stale' = (stale \/ (front = "gcp" /\ \E i \in 1..Len(decl) : decl[i] \in {"softplus", "pnorm25"}))
             /\ UNCHANGED <<front, obj, decl, persistent, ucols, dead, aliased>>
Next == Formulate \/ \E k \in ConKinds : Add(k)
Spec == Init /\ [][Next]_vars

\* C09/C19: a formulation never writes into the user's persistent lists, so the incremental model IS the fresh one
PersistentUntouched == persistent = 1
\* ... and a later variable never shares a column with something an earlier formulation left behind
NoAliasing == ~aliased
Export == (formulated = decl /\ Len(decl) >= 1 /\ Len(hist) >= 3) => PrintT(ToJson([front |-> front, obj |-> obj, hist |-> hist]))
=============================================================================
