------------------------------ MODULE Dispatch ------------------------------
(***************************************************************************)
(* Routing of accepted constraint kinds and of the objective epigraph      *)
(* through the model layers lp -> socp -> gcp (C06: nothing accepted is    *)
(* silently dropped or replaced).                                          *)
(*                                                                         *)
(* An item is [x: xtype, pos: "constr"|"obj", persp: BOOLEAN, summed:      *)
(* BOOLEAN].  The transcription follows                                    *)
(*   gcp.Model.st (gcp.py:39) -> socp.Model.st (socp.py:35) -> lp.Model.st *)
(*   (lp.py:391) for constraints, and for the objective the three epigraph *)
(*   fragments gcp.do_math (gcp.py:102-109), socp.do_math (socp.py:112-119)*)
(*   and lp.do_math (lp.py:523-528), each of which rebuilds                *)
(*   obj_constr = (x0 - sign*obj >= 0) and picks the xtypes it knows,      *)
(* followed by the encoder loops of each layer.                            *)
(* The state machine feeds items one at a time; `encoded` records which    *)
(* encoder fragment(s) each item reached.                                  *)
(***************************************************************************)
EXTENDS Naturals, Sequences, FiniteSets, TLC, Json, SequencesExt

CONSTANTS NObjFixed   \* TRUE: gcp.do_math routes an 'N' objective to the exponential-cone encoder (repaired)

\* xtypes of CvxConstr (lp.py:2435) plus the non-Cvx constraint classes
XTypes == {"A", "M", "I", "E", "S", "Q", "G", "T", "C", "N", "X", "L", "P", "F", "O", "D"}
Others == {"KL", "ExpCone", "RSOCone", "Lin", "Bounds", "LMI"}
CanBeObjective(x) == x \in XTypes        \* Convex objects; cones / KL are constraints only
HasSum(x) == x \in {"X", "L"}             \* Convex.sum is defined for these
HasPersp(x) == x \in {"X", "L"}           \* pexp / plog

\* the encoder that realises the atom (ideal)
IdealEncoder(x) ==
    CASE x \in {"A", "M", "I"} -> "lp.pws"
      [] x \in {"E", "S", "Q"} -> "socp.cvx"
      [] x \in {"G", "T", "C"} -> "socp.ip"
      [] x \in {"N", "X", "L", "P", "F", "KL"} -> "gcp.other"
      [] x \in {"O", "D"} -> "gcp.det"
      [] x = "ExpCone" -> "gcp.exp"
      [] x = "RSOCone" -> "socp.cone"
      [] x = "LMI" -> "gcp.lmi"
      [] x \in {"Lin", "Bounds"} -> "lp.lin"

\* ---- constraints: which list st() appends to, and which encoder loop reads that list
StList(x) ==
    CASE x = "ExpCone" -> "gcp.exp"
      [] x \in {"X", "L", "P", "F", "N"} -> "gcp.other"
      [] x \in {"O", "D"} -> "gcp.det"
      [] x \in {"KL"} -> "gcp.other"
      [] x = "LMI" -> "gcp.lmi"
      [] x \in {"A", "M", "I"} -> "lp.pws"                \* socp.st -> lp.st
      [] x \in {"E", "S", "Q"} -> "socp.cvx"
      [] x \in {"G", "T", "C"} -> "socp.ip"
      [] x = "RSOCone" -> "socp.cone"
      [] x \in {"Lin", "Bounds"} -> "lp.lin"

\* ---- objective: each layer tests the xtype of the rebuilt epigraph constraint
GcpObj(x) == IF x \in {"X", "L", "P", "F"} \/ (NObjFixed /\ x = "N") THEN {"gcp.other"}
             ELSE IF x \in {"O", "D"} THEN {"gcp.det"} ELSE {}
\* socp: 'GTC' -> aux_ipc (encoded by the ip loop); everything else goes to more_cvx, whose loop
\* only knows E, S, Q, A
SocpObj(x) == IF x \in {"G", "T", "C"} THEN {"socp.ip"}
              ELSE IF x \in {"E", "S", "Q"} THEN {"socp.cvx"}
              ELSE IF x = "A" THEN {"socp.cvx.A"} ELSE {}
\* lp: CvxConstr -> more_cvx, whose loop knows A, M, I
LpObj(x) == IF x \in {"A", "M", "I"} THEN {"lp.pws"} ELSE {}
ObjEncoders(x) == GcpObj(x) \cup SocpObj(x) \cup LpObj(x)

\* element-wise atoms with .sum(): Convex.sum keeps affine_in and sums affine_out; the comparison
\* operators build the CvxConstr without the sum information, so the encoder pairs every element of
\* affine_in with the one summed right-hand side
EncodesSum(x) == FALSE          \* transcription: no encoder implements the summed form

VARIABLES todo, encoded, dropped, replaced
vars == <<todo, encoded, dropped, replaced>>

Items == {[x |-> x, pos |-> "constr", summed |-> FALSE] : x \in XTypes \cup Others}
         \cup {[x |-> x, pos |-> "obj", summed |-> FALSE] : x \in {y \in XTypes : CanBeObjective(y)}}
         \cup {[x |-> x, pos |-> p, summed |-> TRUE] : x \in {y \in XTypes : HasSum(y)}, p \in {"constr", "obj"}}

\* the items are fed in one fixed order (the routing of one item does not depend on the others)
Init == todo = SetToSeq(Items) /\ encoded = {} /\ dropped = {} /\ replaced = {}

Feed(it) ==
    /\ todo # <<>> /\ it = Head(todo)
    /\ todo' = Tail(todo)
    /\ LET encs == IF it.pos = "constr" THEN {StList(it.x)} ELSE ObjEncoders(it.x) IN
       /\ encoded' = encoded \cup {[item |-> it, encs |-> encs]}
       /\ dropped' = IF encs = {} THEN dropped \cup {it} ELSE dropped
       /\ replaced' = IF it.summed /\ ~EncodesSum(it.x) THEN replaced \cup {it} ELSE replaced

Next == \E it \in Items : Feed(it)
Spec == Init /\ [][Next]_vars

\* C06: every accepted item reaches the encoder of its atom ...
NothingDropped == dropped = {}
EncoderMatchesAtom == \A e \in encoded : e.encs # {} => IdealEncoder(e.item.x) \in {IF s = "socp.cvx.A" THEN "lp.pws" ELSE s : s \in e.encs}
\* ... and is not encoded as something else (the summed forms are the known exception, see KNOWN_FINDINGS)
NothingReplaced == replaced = {}
KnownReplaced == \A it \in replaced : it.summed /\ HasSum(it.x)

ExportDone == todo # <<>> \/ PrintT(ToJson([encoded |-> encoded, dropped |-> dropped, replaced |-> replaced]))
=============================================================================
