--------------------------- MODULE ArrayAlgebra ---------------------------
(***************************************************************************)
(* NumPy array semantics on SYMBOLIC arrays (property C05).                *)
(*                                                                         *)
(* An array is [sh : Seq(Nat), d : Seq(Form)], row-major.  A Form is the   *)
(* coefficient vector of a bi-affine function of the decision components   *)
(* x_1..x_NV and the random components z_1..z_NR:                          *)
(*     Form[P(i,j)] = coefficient of x_i * z_j     (x_0 = z_0 = 1)         *)
(* so that an affine function of decisions only uses the positions P(i,0)  *)
(* (with NR = 0 a Form is exactly <<const, c_1, .., c_NV>>).               *)
(*                                                                         *)
(* Every operator below is written from the NumPy reference manual          *)
(* (broadcasting, matmul, basic + advanced indexing, reshape, transpose,   *)
(* sum, concatenate, diag/tril/triu/trace), NOT from rsome's code.  The    *)
(* replay validates this model of NumPy against NumPy itself on every      *)
(* exported behaviour (a disagreement is a machinery error) and then       *)
(* compares rsome's Affine.linear/const (RoAffine.raffine/affine) with the *)
(* exported content exactly.                                               *)
(*                                                                         *)
(* The state machine holds ONE current expression cur built over the       *)
(* decision array X (shape XShape) and, when HasZ, the random array Z;     *)
(* each action applies one operator with operands from catalogues that are *)
(* functions of the current shape.  kind follows rsome's typing rule       *)
(* (D: Affine over decisions, R: Affine over randoms, M: RoAffine) and is  *)
(* the first coordinate of the support matrix.                             *)
(***************************************************************************)
EXTENDS Naturals, Integers, Sequences, FiniteSets, TLC, SequencesExt, Json

CONSTANTS Bases,     \* sequence of [x |-> shape of the decision array X, hz |-> BOOLEAN (bi-affine
                     \*   configuration), z |-> shape of the random array Z]; Init picks one
          MaxDepth,  \* bound on the length of the operator word
          Level,     \* 1 lite / 2 full catalogues
          Ops,       \* set of enabled operator families (strings)
          SelfDepth  \* the algebraic self-checks are evaluated on states of depth <= SelfDepth

VARIABLES base,      \* index into Bases (never changes)
          cur,       \* the current symbolic array
          kind,      \* "D" | "R" | "M"   rsome's expression class
          status,    \* "ok" | "nperr" (NumPy itself rejects the last operation)
                     \*      | "unsup" (support matrix: rsome is specified to raise)
          why,       \* name of the support-matrix entry when status = "unsup", else ""
          hist       \* the operator word

vars == <<base, cur, kind, status, why, hist>>

-----------------------------------------------------------------------------
(* integers *)
Min2(a, b) == IF a <= b THEN a ELSE b
Max2(a, b) == IF a >= b THEN a ELSE b
SetMax(S) == CHOOSE x \in S : \A y \in S : y <= x
SetMin(S) == CHOOSE x \in S : \A y \in S : x <= y
Clamp(v, lo, hi) == IF v < lo THEN lo ELSE IF v > hi THEN hi ELSE v
Iota(n) == [i \in 1..n |-> i]

RECURSIVE Prod(_)
Prod(sh) == IF sh = <<>> THEN 1 ELSE sh[1] * Prod(Tail(sh))

\* forms are padded to the largest base of the configuration
NV == SetMax({Prod(Bases[b].x) : b \in 1..Len(Bases)})
NR == SetMax({IF Bases[b].hz THEN Prod(Bases[b].z) ELSE 0 : b \in 1..Len(Bases)})
W  == (NV + 1) * (NR + 1)
TheBase == Bases[base]
XShape == TheBase.x
ZShape == TheBase.z
HasZ == TheBase.hz
P(i, j) == i * (NR + 1) + j + 1

-----------------------------------------------------------------------------
(* forms *)
Zero == [k \in 1..W |-> 0]
Unit(p) == [k \in 1..W |-> IF k = p THEN 1 ELSE 0]
K(c) == [k \in 1..W |-> IF k = 1 THEN c ELSE 0]
FAdd(p, q) == [k \in 1..W |-> p[k] + q[k]]
FNeg(p) == [k \in 1..W |-> 0 - p[k]]
FSub(p, q) == [k \in 1..W |-> p[k] - q[k]]
FScale(c, p) == [k \in 1..W |-> c * p[k]]
PureDec(p) == \A i \in 0..NV : \A j \in 1..NR : p[P(i, j)] = 0
PureRand(p) == \A i \in 1..NV : \A j \in 0..NR : p[P(i, j)] = 0
Outer(p, q) == [k \in 1..W |-> p[P((k - 1) \div (NR + 1), 0)] * q[P(0, (k - 1) % (NR + 1))]]
IsConst(p) == \A k \in 2..W : p[k] = 0
\* product of two forms that stays bi-affine: one factor constant, or decision-affine times random-affine
FMul(p, q) == IF IsConst(q) THEN FScale(q[1], p)
              ELSE IF IsConst(p) THEN FScale(p[1], q)
              ELSE IF PureDec(p) /\ PureRand(q) THEN Outer(p, q) ELSE Outer(q, p)

RECURSIVE FSumTo(_, _)
FSumTo(f(_), n) == IF n = 0 THEN Zero ELSE FAdd(FSumTo(f, n - 1), f(n - 1))   \* sum_{t=0}^{n-1} f(t)

-----------------------------------------------------------------------------
(* row-major indexing; multi-indices are sequences of 0-based coordinates *)
RECURSIVE Unravel(_, _)
Unravel(i, sh) == IF sh = <<>> THEN <<>>
                  ELSE LET n == Len(sh) IN Append(Unravel(i \div sh[n], SubSeq(sh, 1, n - 1)), i % sh[n])
RECURSIVE Ravel(_, _)
Ravel(ix, sh) == IF sh = <<>> THEN 0
                 ELSE LET n == Len(sh) IN Ravel(SubSeq(ix, 1, n - 1), SubSeq(sh, 1, n - 1)) * sh[n] + ix[n]

At(a, ix) == a.d[Ravel(ix, a.sh) + 1]
MkArr(sh, f(_)) == [sh |-> sh, d |-> [e \in 1..Prod(sh) |-> f(Unravel(e - 1, sh))]]

OK(a) == [ok |-> TRUE, a |-> a]
ERR == [ok |-> FALSE, a |-> [sh |-> <<>>, d |-> <<>>]]

X == [sh |-> XShape, d |-> [e \in 1..Prod(XShape) |-> Unit(P(e, 0))]]
Z == [sh |-> ZShape, d |-> [e \in 1..Prod(ZShape) |-> Unit(P(0, e))]]
\* numeric array: distinct magnitudes, one zero, some negatives
CVal(e, seed) == IF e = 2 THEN 0 ELSE IF e % 4 = 3 THEN 0 - (e + seed) ELSE e + seed
CVals(sh, seed) == [e \in 1..Prod(sh) |-> CVal(e, seed)]
CArr(c) == [sh |-> c.sh, d |-> [e \in 1..Len(c.v) |-> K(c.v[e])]]
Num(sh, seed) == [sh |-> sh, v |-> CVals(sh, seed)]

-----------------------------------------------------------------------------
(* broadcasting (numpy.broadcast_shapes) *)
BOk(s, t) == \A k \in 1..Min2(Len(s), Len(t)) :
                 LET a == s[Len(s) - k + 1]  b == t[Len(t) - k + 1] IN a = b \/ a = 1 \/ b = 1
BShape(s, t) == LET n == Max2(Len(s), Len(t)) IN
    [k \in 1..n |-> LET a == IF k > n - Len(s) THEN s[k - (n - Len(s))] ELSE 1
                        b == IF k > n - Len(t) THEN t[k - (n - Len(t))] ELSE 1
                    IN IF a = 1 THEN b ELSE a]
BIdx(o, s) == [k \in 1..Len(s) |-> IF s[k] = 1 THEN 0 ELSE o[Len(o) - Len(s) + k]]
Bin(a, b, f(_, _)) ==
    IF ~BOk(a.sh, b.sh) THEN ERR
    ELSE OK(MkArr(BShape(a.sh, b.sh), LAMBDA o : f(At(a, BIdx(o, a.sh)), At(b, BIdx(o, b.sh)))))
Add(a, b) == Bin(a, b, FAdd)
Sub(a, b) == Bin(a, b, FSub)
Mul(a, b) == Bin(a, b, FMul)
Neg(a) == [sh |-> a.sh, d |-> [e \in 1..Len(a.d) |-> FNeg(a.d[e])]]

(* numpy.matmul *)
MatMul(a, b) ==
    LET ra == Len(a.sh)  rb == Len(b.sh) IN
    IF ra = 0 \/ rb = 0 THEN ERR ELSE
    LET A2 == IF ra = 1 THEN <<1, a.sh[1]>> ELSE a.sh
        B2 == IF rb = 1 THEN <<b.sh[1], 1>> ELSE b.sh
        na == Len(A2)  nb == Len(B2)
        bA == SubSeq(A2, 1, na - 2)  bB == SubSeq(B2, 1, nb - 2)
        n == A2[na - 1]  kk == A2[na]  m == B2[nb]
    IN IF kk # B2[nb - 1] \/ ~BOk(bA, bB) THEN ERR ELSE
    LET bt == BShape(bA, bB)
        nbt == Len(bt)
        aa == [sh |-> A2, d |-> a.d]
        bb == [sh |-> B2, d |-> b.d]
        full == MkArr(bt \o <<n, m>>,
                      LAMBDA o : LET bo == SubSeq(o, 1, nbt) i == o[nbt + 1] j == o[nbt + 2] IN
                          FSumTo(LAMBDA l : FMul(At(aa, BIdx(bo, bA) \o <<i, l>>),
                                                 At(bb, BIdx(bo, bB) \o <<l, j>>)), kk))
    IN OK([sh |-> bt \o (IF ra = 1 THEN <<>> ELSE <<n>>) \o (IF rb = 1 THEN <<>> ELSE <<m>>), d |-> full.d])

-----------------------------------------------------------------------------
(* indexing: x[sel], sel a tuple of selectors *)
None == 99
SInt(i) == [k |-> "int", i |-> i]
SSl(a, b, c) == [k |-> "sl", a |-> a, b |-> b, c |-> c]
SNew == [k |-> "new"]
SEll == [k |-> "ell"]
SList(l) == [k |-> "list", l |-> l, mext |-> 0]
SMask(sh, m) == [k |-> "mask", sh |-> sh, m |-> m]      \* m row-major over sh
Full == SSl(None, None, None)

\* slice(a,b,c).indices(n) expanded to the list of positions
SliceIdx(a, b, c, n) ==
    LET step == IF c = None THEN 1 ELSE c
        norm(v) == IF v < 0 THEN v + n ELSE v
    IN IF step > 0
       THEN LET lo == IF a = None THEN 0 ELSE Clamp(norm(a), 0, n)
                hi == IF b = None THEN n ELSE Clamp(norm(b), 0, n)
                cnt == IF hi > lo THEN (hi - lo + step - 1) \div step ELSE 0
            IN [t \in 1..cnt |-> lo + (t - 1) * step]
       ELSE LET lo == IF a = None THEN n - 1 ELSE Clamp(norm(a), 0 - 1, n - 1)
                hi == IF b = None THEN 0 - 1 ELSE Clamp(norm(b), 0 - 1, n - 1)
                cnt == IF lo > hi THEN (lo - hi + (0 - step) - 1) \div (0 - step) ELSE 0
            IN [t \in 1..cnt |-> lo + (t - 1) * step]

\* a boolean mask of rank q equals q paired integer lists (its nonzero() coordinates)
MaskLists(s) == LET pos == SelectSeq(Iota(Len(s.m)), LAMBDA i : s.m[i]) IN
    [r \in 1..Len(s.sh) |-> [k |-> "list", l |-> [t \in 1..Len(pos) |-> Unravel(pos[t] - 1, s.sh)[r]],
                             mext |-> s.sh[r]]]
ExpandMasks(sel) == FlattenSeq([i \in 1..Len(sel) |-> IF sel[i].k = "mask" THEN MaskLists(sel[i]) ELSE <<sel[i]>>])
Consumes(s) == s.k \in {"int", "sl", "list"}
NCons(sel) == Cardinality({i \in 1..Len(sel) : Consumes(sel[i])})
ExpandEll(sel, r) ==
    LET fill == [t \in 1..(r - NCons(sel)) |-> Full] IN
    IF \E i \in 1..Len(sel) : sel[i].k = "ell"
    THEN LET p == CHOOSE i \in 1..Len(sel) : sel[i].k = "ell" IN
         SubSeq(sel, 1, p - 1) \o fill \o SubSeq(sel, p + 1, Len(sel))
    ELSE sel \o fill
NormSel(sel, sh) ==
    [i \in 1..Len(sel) |->
        LET s == sel[i]
            n == sh[Cardinality({j \in 1..i : Consumes(sel[j])})]
        IN IF s.k = "new" THEN [k |-> "new"]
           ELSE IF s.k = "int" THEN [k |-> "pos", kind |-> "int", ix |-> <<IF s.i < 0 THEN s.i + n ELSE s.i>>,
                                     ok |-> (s.i >= 0 - n /\ s.i < n)]
           ELSE IF s.k = "sl" THEN [k |-> "pos", kind |-> "sl", ix |-> SliceIdx(s.a, s.b, s.c, n), ok |-> TRUE]
           ELSE [k |-> "pos", kind |-> "list",
                 ix |-> [t \in 1..Len(s.l) |-> IF s.l[t] < 0 THEN s.l[t] + n ELSE s.l[t]],
                 ok |-> (\A t \in 1..Len(s.l) : s.l[t] >= 0 - n /\ s.l[t] < n) /\ (s.mext = 0 \/ s.mext = n)]]

GetItem(a, sel0) ==
    LET r == Len(a.sh)
        sel1 == ExpandMasks(sel0)
    IN IF NCons(sel1) > r THEN ERR ELSE
    LET E == NormSel(ExpandEll(sel1, r), a.sh)
        n == Len(E)
    IN IF \E i \in 1..n : E[i].k = "pos" /\ ~E[i].ok THEN ERR ELSE
    LET IsAdv(i) == E[i].k = "pos" /\ E[i].kind \in {"int", "list"}
        IsList(i) == E[i].k = "pos" /\ E[i].kind = "list"
        hasList == \E i \in 1..n : IsList(i)
        lens == {Len(E[i].ix) : i \in {j \in 1..n : IsList(j)}}
        L == IF 0 \in lens THEN 0 ELSE SetMax(lens)
    IN IF hasList /\ (\E x \in lens : x # 1 /\ x # L) THEN ERR ELSE
    LET advIdx == {i \in 1..n : IsAdv(i)}
        firstAdv == SetMin(advIdx)
        contiguous == advIdx = firstAdv..SetMax(advIdx)
        front == hasList /\ ~contiguous           \* separated advanced indices: their axis goes first
        Emits(i) == \/ E[i].k = "new"
                    \/ (E[i].k = "pos" /\ E[i].kind = "sl")
                    \/ (hasList /\ contiguous /\ i = firstAdv)
        Extent(i) == IF E[i].k = "new" THEN 1 ELSE IF E[i].kind = "sl" THEN Len(E[i].ix) ELSE L
        emitIdx == SelectSeq(Iota(n), Emits)
        osh == (IF front THEN <<L>> ELSE <<>>) \o [t \in 1..Len(emitIdx) |-> Extent(emitIdx[t])]
        DimPos(i) == (IF front THEN 1 ELSE 0) + Cardinality({j \in 1..i : Emits(j)})
        advDim == IF front THEN 1 ELSE DimPos(firstAdv)
        consIdx == SelectSeq(Iota(n), LAMBDA i : E[i].k = "pos")
        InCoord(o, i) == IF E[i].kind = "sl" THEN E[i].ix[o[DimPos(i)] + 1]
                         ELSE IF hasList /\ Len(E[i].ix) > 1 THEN E[i].ix[o[advDim] + 1]
                         ELSE E[i].ix[1]
    IN OK(MkArr(osh, LAMBDA o : At(a, [t \in 1..r |-> InCoord(o, consIdx[t])])))

-----------------------------------------------------------------------------
(* shape manipulation, reductions, joins, triangles *)
Reshape(a, tsh) ==
    LET size == Len(a.d)
        neg == {k \in 1..Len(tsh) : tsh[k] < 0}
    IN IF Cardinality(neg) > 1 THEN ERR
       ELSE IF neg = {} THEN (IF Prod(tsh) = size THEN OK([sh |-> tsh, d |-> a.d]) ELSE ERR)
       ELSE LET p == CHOOSE k \in neg : TRUE
                known == Prod([k \in 1..Len(tsh) |-> IF k = p THEN 1 ELSE tsh[k]])
            IN IF tsh[p] # 0 - 1 \/ known = 0 \/ size % known # 0 THEN ERR
               ELSE OK([sh |-> [tsh EXCEPT ![p] = size \div known], d |-> a.d])
Flatten(a) == [sh |-> <<Len(a.d)>>, d |-> a.d]
T(a) == MkArr(Reverse(a.sh), LAMBDA o : At(a, Reverse(o)))

RECURSIVE FSumSeq(_)
FSumSeq(s) == IF s = <<>> THEN Zero ELSE FAdd(FSumSeq(Front(s)), Last(s))
SumAll(a) == [sh |-> <<>>, d |-> <<FSumSeq(a.d)>>]
SumAxis(a, ax0) ==
    LET r == Len(a.sh) IN
    IF r = 0 THEN (IF ax0 \in {0, 0 - 1} THEN OK(a) ELSE ERR)    \* numpy accepts axis 0 / -1 on a 0-d array
    ELSE IF ax0 < 0 - r \/ ax0 >= r THEN ERR ELSE
    LET ax == (IF ax0 < 0 THEN ax0 + r ELSE ax0) + 1 IN
    OK(MkArr(RemoveAt(a.sh, ax), LAMBDA o : FSumTo(LAMBDA t : At(a, InsertAt(o, ax, t)), a.sh[ax])))

Concat2(a, b, ax0) ==
    LET r == Len(a.sh) IN
    IF r = 0 \/ Len(b.sh) # r \/ ax0 < 0 - r \/ ax0 >= r THEN ERR ELSE
    LET ax == (IF ax0 < 0 THEN ax0 + r ELSE ax0) + 1 IN
    IF \E k \in 1..r : k # ax /\ a.sh[k] # b.sh[k] THEN ERR ELSE
    OK(MkArr([a.sh EXCEPT ![ax] = a.sh[ax] + b.sh[ax]],
             LAMBDA o : IF o[ax] < a.sh[ax] THEN At(a, o) ELSE At(b, [o EXCEPT ![ax] = @ - a.sh[ax]])))
RECURSIVE ConcatN(_, _)
ConcatN(s, ax) == IF Len(s) = 1 THEN (IF Len(s[1].sh) = 0 \/ ax < 0 - Len(s[1].sh) \/ ax >= Len(s[1].sh) THEN ERR ELSE OK(s[1]))
                  ELSE LET h == ConcatN(Front(s), ax) IN
                       IF ~h.ok THEN ERR ELSE Concat2(h.a, Last(s), ax)

DiagLen(R, C, k) == IF k >= 0 THEN Max2(0, Min2(R, C - k)) ELSE Max2(0, Min2(R + k, C))
Diag(a, k) == MkArr(<<DiagLen(a.sh[1], a.sh[2], k)>>,
                    LAMBDA o : At(a, <<o[1] + (IF k < 0 THEN 0 - k ELSE 0), o[1] + (IF k > 0 THEN k ELSE 0)>>))
Keep(a, test(_, _)) == MkArr(a.sh, LAMBDA o : IF test(o[1], o[2]) THEN At(a, o) ELSE Zero)
Tril(a, k) == Keep(a, LAMBDA i, j : j - i <= k)
Triu(a, k) == Keep(a, LAMBDA i, j : j - i >= k)
DiagFill(a, k) == Keep(a, LAMBDA i, j : j - i = k)
Trace(a) == [sh |-> <<>>, d |-> <<FSumTo(LAMBDA t : At(a, <<t, t>>), Min2(a.sh[1], a.sh[2]))>>]
-----------------------------------------------------------------------------
(* operand catalogues: functions of the current shape (TLC owns the cases) *)
On(f) == f \in Ops
L2 == Level >= 2
Cross(A, B) == [p \in 1..(Len(A) * Len(B)) |-> <<A[(p - 1) \div Len(B) + 1], B[((p - 1) % Len(B)) + 1]>>]

\* shapes of numeric operands of + - * : both broadcast directions, higher rank, one mismatch
EwShapes(s) ==
    LET r == Len(s) IN
    {<<>>, s}
    \cup (IF r >= 1 THEN {[s EXCEPT ![r] = 1]} ELSE {})
    \cup (IF r >= 2 THEN {SubSeq(s, 2, r), [s EXCEPT ![1] = 1]} ELSE {})
    \cup (IF r < 3 THEN {<<2>> \o s} ELSE {})
    \cup {[s EXCEPT ![k] = 3] : k \in {j \in 1..r : s[j] = 1}}
    \cup (IF r >= 1 /\ s[r] >= 2 THEN {[s EXCEPT ![r] = s[r] + 1]} ELSE {})
    \cup (IF L2 THEN {[s EXCEPT ![k] = 1] : k \in 1..r} \cup {SubSeq(s, k, r) : k \in 2..r}
                     \cup (IF r < 3 THEN {<<1>> \o s} ELSE {})
                     \cup (IF r = 1 THEN {<<s[1], 1>>, <<2, 1>>} ELSE {})
                     \cup (IF r = 0 THEN {<<2, 3>>, <<3>>} ELSE {})
          ELSE {})

\* cur @ C
MMRight(s) ==
    LET r == Len(s) IN
    IF r = 0 THEN {<<>>, <<2>>} ELSE
    LET k == s[r] IN
    {<<k>>, <<k, 2>>, <<k, 1>>, <<2, k, 2>>, <<k + 1, 2>>, <<>>}
    \cup (IF r = 3 THEN {<<s[1], k, 2>>, <<1, k, 2>>, <<2, 1, k, 2>>} ELSE {})     \* the last: 4-D, batch (2,1) against (s1,)
    \cup (IF L2 THEN {<<k, 3>>, <<3, k, 1>>, <<k + 1>>} ELSE {})
\* C @ cur
MMLeft(s) ==
    LET r == Len(s) IN
    IF r = 0 THEN {<<>>, <<2>>} ELSE
    LET k == IF r = 1 THEN s[1] ELSE s[r - 1] IN
    {<<k>>, <<2, k>>, <<1, k>>, <<2, 2, k>>, <<2, k + 1>>, <<>>}
    \cup (IF r = 3 THEN {<<s[1], 2, k>>, <<1, 2, k>>, <<2, 1, 2, k>>} ELSE {})
    \cup (IF L2 THEN {<<3, k>>, <<3, 1, k>>, <<k + 1>>} ELSE {})

Alt(n) == [t \in 1..n |-> t % 2 = 1]
AInts(n) == <<SInt(0), SInt(0 - 1)>> \o (IF L2 THEN <<SInt(n - 1), SInt(0 - n)>> ELSE <<>>)
ASl(n) == <<Full, SSl(1, None, None), SSl(None, 0 - 1, None), SSl(None, None, 2), SSl(None, None, 0 - 1)>>
          \o (IF L2 THEN <<SSl(0 - 2, None, None), SSl(None, None, 0 - 2), SSl(n - 1, 0, 0 - 1), SSl(0, n, 2),
                           SSl(1, 1, None), SSl(0 - 1, None, 0 - 2), SSl(None, 1, 0 - 1), SSl(5, None, None),
                           SSl(0 - 7, 7, None)>>
              ELSE <<>>)
ALs(n) == <<SList(<<0>>), SList(<<n - 1, 0>>)>>
          \o (IF L2 THEN <<SList(<<0, 0>>), SList(<<0 - 1, 0, 0 - 1>>), SList(<<0 - n, n - 1>>)>> ELSE <<>>)
AMs(n) == <<SMask(<<n>>, Alt(n))>>
          \o (IF L2 THEN <<SMask(<<n>>, [t \in 1..n |-> TRUE]), SMask(<<n>>, [t \in 1..n |-> FALSE]),
                           SMask(<<n>>, [t \in 1..n |-> t % 2 = 0])>> ELSE <<>>)
ABad(n) == <<SInt(n), SList(<<n>>), SMask(<<n + 1>>, Alt(n + 1))>>
Atoms(n) == AInts(n) \o ASl(n) \o ALs(n) \o AMs(n) \o ABad(n)
Red(n) == <<SInt(0 - 1), SSl(None, None, 0 - 1), SSl(1, None, None), SList(<<n - 1, 0>>), SMask(<<n>>, Alt(n))>>
          \o (IF L2 THEN <<SInt(0), Full, SSl(None, None, 2), SList(<<0>>)>> ELSE <<>>)

Sels(s) ==
    LET r == Len(s) IN
    IF r = 0 THEN << <<>>, <<SNew>>, <<SEll>>, <<SEll, SNew>>, <<SInt(0)>> >> ELSE
    LET A1 == Atoms(s[1])
        RL == Red(s[r])
        l1 == SList(<<s[1] - 1, 0>>)
    IN [i \in 1..Len(A1) |-> <<A1[i]>>]
       \o [i \in 1..Len(RL) |-> <<SEll, RL[i]>>]
       \o << <<SInt(0), SEll>>, <<SNew>>, <<SEll, SNew>>, <<Full, SNew>>, <<SNew, SInt(0 - 1)>>, <<l1, SNew>>,
             <<>>, [t \in 1..(r + 1) |-> SInt(0)] >>
       \o (IF r >= 2
           THEN LET l2 == SList(<<s[2] - 1, 0>>) IN
                Cross(Red(s[1]), Red(s[2]))
                \o << <<SMask(<<s[1], s[2]>>, Alt(s[1] * s[2]))>>, <<l1, SNew, l2>>, <<SNew, l1, l2>> >>
           ELSE <<>>)
       \o (IF r = 3
           THEN LET l2 == SList(<<s[2] - 1, 0>>)
                    l3 == SList(<<s[3] - 1, 0>>)
                    rev == SSl(None, None, 0 - 1)
                IN << <<SInt(0), Full, l3>>, <<l1, Full, l3>>, <<Full, l2, l3>>, <<l1, l2, Full>>,
                      <<rev, SInt(0 - 1), SSl(1, None, None)>>, <<SInt(0 - 1), SEll, SSl(None, None, 2)>>,
                      <<Full, SInt(0), l3>>, <<SMask(<<s[1], s[2]>>, Alt(s[1] * s[2])), SInt(0)>>,
                      <<Full, SMask(<<s[2], s[3]>>, Alt(s[2] * s[3]))>>,
                      <<SMask(s, Alt(s[1] * s[2] * s[3]))>>, <<l1, l2, l3>>,
                      <<l1, rev, SInt(0)>>, <<SInt(0), rev, SNew, l3>> >>
           ELSE <<>>)

ReshapeTargets(n) ==
    {<<n>>, <<0 - 1>>, <<1, n>>, <<n, 1>>, <<n + 1>>}
    \cup {<<p, n \div p>> : p \in {q \in 2..(n - 1) : n % q = 0}}
    \cup {<<p, 0 - 1>> : p \in {q \in 2..n : n % q = 0}}
    \cup (IF n = 1 THEN {<<>>, <<1, 1, 1>>} ELSE {})
    \cup (IF L2 THEN {<<0 - 1, 1>>, <<1, 0 - 1, 1>>, <<0 - 1, 0 - 1>>, <<4, 0 - 1>>}
                     \cup {<<x[1], x[2], n \div (x[1] * x[2])>> : x \in {y \in {2, 3} \X {1, 2, 3} : n % (y[1] * y[2]) = 0}}
          ELSE {})

-----------------------------------------------------------------------------
(* state machine *)
Depth == Len(hist) - 1
More == Depth < MaxDepth /\ status = "ok" /\ Len(cur.d) <= 40

Init == \E b \in 1..Len(Bases) : \E st \in (IF Bases[b].hz THEN {"X", "Z"} ELSE {"X"}) :
    /\ base = b
    /\ cur = IF st = "X" THEN [sh |-> Bases[b].x, d |-> [e \in 1..Prod(Bases[b].x) |-> Unit(P(e, 0))]]
             ELSE [sh |-> Bases[b].z, d |-> [e \in 1..Prod(Bases[b].z) |-> Unit(P(0, e))]]
    /\ kind = IF st = "X" THEN "D" ELSE "R"
    /\ status = "ok" /\ why = ""
    /\ hist = << [op |-> "start", leaf |-> st] >>

\* Support matrix, second coordinate: entries under which rsome is specified to raise.
\*   zero-size            the result has no element
\*   biaffine-structural  flatten / concat family / diag family on a RoAffine (kind M)
\*   non-2d               diag/tril/triu/trace on an array that is not 2-D
\*   vec-nonscalar        vec() of an argument with more than one element
Outcome(res, rec, newkind, u) ==
    /\ hist' = Append(hist, rec) /\ base' = base
    /\ IF ~res.ok
       THEN status' = "nperr" /\ why' = "" /\ cur' = cur /\ kind' = kind
       ELSE LET w == IF u # "" THEN u ELSE IF Len(res.a.d) = 0 THEN "zero-size" ELSE "" IN
            /\ cur' = res.a /\ kind' = newkind /\ why' = w
            /\ status' = IF w = "" THEN "ok" ELSE "unsup"
Struct == IF kind = "M" THEN "biaffine-structural" ELSE ""

DoNeg == More /\ On("neg") /\ Outcome(OK(Neg(cur)), [op |-> "neg"], kind, "")
DoAddC == More /\ On("ew") /\ \E side \in {"l", "r"} : \E sh \in EwShapes(cur.sh) :
    LET c == Num(sh, 1) IN
    Outcome(IF side = "l" THEN Add(cur, CArr(c)) ELSE Add(CArr(c), cur), [op |-> "add", side |-> side, c |-> c], kind, "")
DoSubC == More /\ On("ew") /\ \E side \in {"l", "r"} : \E sh \in EwShapes(cur.sh) :
    LET c == Num(sh, 2) IN
    Outcome(IF side = "l" THEN Sub(cur, CArr(c)) ELSE Sub(CArr(c), cur), [op |-> "sub", side |-> side, c |-> c], kind, "")
DoMulC == More /\ On("ew") /\ \E side \in {"l", "r"} : \E sh \in EwShapes(cur.sh) :
    LET c == Num(sh, 1) IN
    Outcome(IF side = "l" THEN Mul(cur, CArr(c)) ELSE Mul(CArr(c), cur), [op |-> "mul", side |-> side, c |-> c], kind, "")
DoMatMulR == More /\ On("mm") /\ \E sh \in MMRight(cur.sh) :
    LET c == Num(sh, 1) IN Outcome(MatMul(cur, CArr(c)), [op |-> "matmul", side |-> "l", c |-> c], kind, "")
DoMatMulL == More /\ On("mm") /\ \E sh \in MMLeft(cur.sh) :
    LET c == Num(sh, 2) IN Outcome(MatMul(CArr(c), cur), [op |-> "matmul", side |-> "r", c |-> c], kind, "")
DoGetItem == More /\ On("idx") /\ LET S == Sels(cur.sh) IN \E i \in 1..Len(S) :
    Outcome(GetItem(cur, S[i]), [op |-> "getitem", sel |-> S[i]], kind, "")
DoReshape == More /\ On("shape") /\ \E t \in ReshapeTargets(Len(cur.d)) :
    Outcome(Reshape(cur, t), [op |-> "reshape", sh |-> t], kind, "")
DoFlatten == More /\ On("shape") /\ Outcome(OK(Flatten(cur)), [op |-> "flatten"], kind, Struct)
DoT == More /\ On("shape") /\ Outcome(OK(T(cur)), [op |-> "T"], kind, "")
DoSumAll == More /\ On("sum") /\ Outcome(OK(SumAll(cur)), [op |-> "sum"], kind, "")
DoSumAxis == More /\ On("sum") /\ \E ax \in ((0 - Len(cur.sh))..Len(cur.sh)) \cup {0 - 1} :
    Outcome(SumAxis(cur, ax), [op |-> "sumaxis", axis |-> ax], kind, "")

\* operands of the joins: the current expression, numeric arrays, the leaf X
PCur == [t |-> "cur"]
PC(c) == [t |-> "c", c |-> c]
PX == [t |-> "X"]
PArr(p) == IF p.t = "cur" THEN cur ELSE IF p.t = "X" THEN X ELSE CArr(p.c)
PArrs(ps) == [i \in 1..Len(ps) |-> PArr(ps[i])]
ConcatCases(s) ==
    LET r == Len(s) IN
    IF r = 0 THEN << [axis |-> 0, parts |-> <<PCur, PCur>>] >> ELSE
    LET axes == <<0, 0 - 1, r>> \o (IF r >= 2 THEN <<r - 2>> ELSE <<>>)
        one(ax0) == LET ax == IF ax0 >= r THEN 1 ELSE (IF ax0 < 0 THEN ax0 + r ELSE ax0) + 1
                        c == Num([s EXCEPT ![ax] = 2], 4)
                        bad == Num([k \in 1..r |-> s[k] + 1], 4)
                    IN << [axis |-> ax0, parts |-> <<PCur, PC(c)>>], [axis |-> ax0, parts |-> <<PC(c), PCur>>],
                          [axis |-> ax0, parts |-> <<PCur, PCur>>] >>
                       \o (IF L2 THEN << [axis |-> ax0, parts |-> <<PCur, PC(c), PCur>>],
                                         [axis |-> ax0, parts |-> <<PCur, PC(bad)>>],
                                         [axis |-> ax0, parts |-> <<PCur, PX>>],
                                         [axis |-> ax0, parts |-> <<PC(Num(<<>>, 4)), PCur>>] >> ELSE <<>>)
    IN FlattenSeq([i \in 1..Len(axes) |-> one(axes[i])])
DoConcat == More /\ On("join") /\ LET S == ConcatCases(cur.sh) IN \E i \in 1..Len(S) :
    /\ (kind = "R" => \A q \in 1..Len(S[i].parts) : S[i].parts[q].t # "X")      \* X lives in another model than a random expression
    /\     Outcome(ConcatN(PArrs(S[i].parts), S[i].axis), [op |-> "concat", axis |-> S[i].axis, parts |-> S[i].parts], kind, Struct)

\* rstack(a1, .., an): join along axis 0; an argument that is a LIST is joined along axis 1 first
\* cstack(a1, .., an): join along axis 1; a LIST argument is joined along axis 0 first  (docs/get_start.md)
StackArgs(s) ==
    LET r == Len(s) IN
    IF r = 0 THEN << << <<PCur>>, <<PCur>> >> >> ELSE
    LET same == PC(Num(s, 5)) IN
    << << <<PCur>>, <<same>> >>, << <<same>>, <<PCur>> >>, << <<PCur, same>> >>, << <<PCur, same>>, <<same, PCur>> >> >>
    \o (IF r >= 2
        THEN << \* rstack shape: [cur | (s1,2,..)] over (1, s2+2, ..);  cstack shape: [cur ; (1,s2,..)] beside (s1+1, 2, ..)
                << <<PCur, PC(Num([s EXCEPT ![2] = 2], 5))>>, <<PC(Num([s EXCEPT ![1] = 1, ![2] = s[2] + 2], 6))>> >>,
                << <<PCur, PC(Num([s EXCEPT ![1] = 1], 5))>>, <<PC(Num([s EXCEPT ![1] = s[1] + 1, ![2] = 2], 6))>> >> >>
        ELSE <<>>)
StackRes(args, inner, outer) ==
    LET parts == [i \in 1..Len(args) |-> IF Len(args[i]) = 1 THEN OK(PArr(args[i][1])) ELSE ConcatN(PArrs(args[i]), inner)] IN
    IF \E i \in 1..Len(parts) : ~parts[i].ok THEN ERR
    ELSE ConcatN([i \in 1..Len(parts) |-> parts[i].a], outer)
DoRStack == More /\ On("join") /\ LET S == StackArgs(cur.sh) IN \E i \in 1..Len(S) :
    Outcome(StackRes(S[i], 1, 0), [op |-> "rstack", args |-> S[i]], kind, Struct)
DoCStack == More /\ On("join") /\ LET S == StackArgs(cur.sh) IN \E i \in 1..Len(S) :
    Outcome(StackRes(S[i], 0, 1), [op |-> "cstack", args |-> S[i]], kind, Struct)
\* vec(a1, .., an): the 1-D array of the given scalars
DoVec == More /\ On("join") /\ \E form \in {1, 2} :
    LET one == [sh |-> <<1>>, d |-> cur.d]
        parts == IF form = 1 THEN <<PCur, PC(Num(<<>>, 6)), PCur>> ELSE <<PC(Num(<<1>>, 7)), PCur>>
        arrs == [i \in 1..Len(parts) |-> IF parts[i].t = "cur" THEN one ELSE [sh |-> <<1>>, d |-> CArr(parts[i].c).d]]
    IN IF Len(cur.d) = 1
       THEN Outcome(ConcatN(arrs, 0), [op |-> "vec", parts |-> parts], kind, Struct)
       ELSE form = 1 /\ Outcome(OK(cur), [op |-> "vec", parts |-> parts], kind, "vec-nonscalar")

Ks == IF L2 THEN (0 - 3)..3 ELSE (0 - 1)..1
Is2D == Len(cur.sh) = 2
DoDiag == More /\ On("tri") /\ Is2D /\ \E k \in Ks : Outcome(OK(Diag(cur, k)), [op |-> "diag", k |-> k], kind, Struct)
DoDiagFill == More /\ On("tri") /\ Is2D /\ \E k \in Ks : Outcome(OK(DiagFill(cur, k)), [op |-> "diagfill", k |-> k], kind, Struct)
DoTril == More /\ On("tri") /\ Is2D /\ \E k \in Ks : Outcome(OK(Tril(cur, k)), [op |-> "tril", k |-> k], kind, Struct)
DoTriu == More /\ On("tri") /\ Is2D /\ \E k \in Ks : Outcome(OK(Triu(cur, k)), [op |-> "triu", k |-> k], kind, Struct)
DoTrace == More /\ On("tri") /\ Is2D /\ Outcome(OK(Trace(cur)), [op |-> "trace"], kind, Struct)
DoTriNon2D == More /\ On("tri") /\ ~Is2D /\ \E o \in {"diag", "tril", "triu", "trace"} :
    Outcome(OK(cur), [op |-> o, k |-> 0], kind, "non-2d")

\* binary operators with a leaf (variable array) as the other operand
Leaves == {"X", "XT"} \cup (IF HasZ THEN {"Z", "ZT"} ELSE {})
LeafArr(n) == IF n = "X" THEN X ELSE IF n = "XT" THEN T(X) ELSE IF n = "Z" THEN Z ELSE T(Z)
LeafKind(n) == IF n \in {"X", "XT"} THEN "D" ELSE "R"
Join(k1, k2) == IF k1 = k2 THEN k1 ELSE "M"
DoAddLeaf == More /\ On("leaf") /\ \E n \in Leaves : \E o \in {"add", "sub"} : \E side \in {"l", "r"} :
    LET b == LeafArr(n) IN
    /\ BOk(cur.sh, b.sh)
    /\ Outcome(IF o = "add" THEN (IF side = "l" THEN Add(cur, b) ELSE Add(b, cur))
               ELSE (IF side = "l" THEN Sub(cur, b) ELSE Sub(b, cur)),
               [op |-> o, side |-> side, leaf |-> n], Join(kind, LeafKind(n)), "")
DoMulLeaf == More /\ On("leaf") /\ kind # "M" /\ \E n \in Leaves : \E side \in {"l", "r"} :
    LET b == LeafArr(n) IN
    /\ LeafKind(n) # kind /\ BOk(cur.sh, b.sh)
    /\ Outcome(IF side = "l" THEN Mul(cur, b) ELSE Mul(b, cur), [op |-> "mul", side |-> side, leaf |-> n], "M", "")
DoMatMulLeaf == More /\ On("leaf") /\ kind # "M" /\ \E n \in Leaves : \E side \in {"l", "r"} :
    LET b == LeafArr(n)
        res == IF side = "l" THEN MatMul(cur, b) ELSE MatMul(b, cur)
    IN /\ LeafKind(n) # kind /\ res.ok
       /\ Outcome(res, [op |-> "matmul", side |-> side, leaf |-> n], "M", "")

Next == \/ DoNeg \/ DoAddC \/ DoSubC \/ DoMulC \/ DoMatMulR \/ DoMatMulL \/ DoGetItem
        \/ DoReshape \/ DoFlatten \/ DoT \/ DoSumAll \/ DoSumAxis
        \/ DoConcat \/ DoRStack \/ DoCStack \/ DoVec
        \/ DoDiag \/ DoDiagFill \/ DoTril \/ DoTriu \/ DoTrace \/ DoTriNon2D
        \/ DoAddLeaf \/ DoMulLeaf \/ DoMatMulLeaf

Spec == Init /\ [][Next]_vars

-----------------------------------------------------------------------------
(* self-checks of the model of NumPy (algebraic laws every reachable array must satisfy) *)
Live == status = "ok" /\ Depth <= SelfDepth
InvCount == /\ Len(cur.d) = Prod(cur.sh)
            /\ \A e \in 1..Len(cur.d) : Len(cur.d[e]) = W
InvKind == /\ kind = "D" => \A e \in 1..Len(cur.d) : PureDec(cur.d[e])
           /\ kind = "R" => \A e \in 1..Len(cur.d) : PureRand(cur.d[e])
InvTT == Live => T(T(cur)) = cur
InvNegNeg == Live => Neg(Neg(cur)) = cur
InvReshape == Live => LET f == Reshape(cur, <<0 - 1>>) IN
                      /\ f.ok /\ f.a.d = cur.d /\ f.a = Flatten(cur)
                      /\ Reshape(f.a, cur.sh) = OK(cur)
RECURSIVE SumDown(_)
SumDown(a) == IF a.sh = <<>> THEN a ELSE SumDown(SumAxis(a, 0).a)
RECURSIVE SumUp(_)
SumUp(a) == IF a.sh = <<>> THEN a ELSE SumUp(SumAxis(a, 0 - 1).a)
InvSumFold == Live => (SumAll(cur) = SumDown(cur) /\ SumAll(cur) = SumUp(cur))
InvBShapeSym == Live => \A p \in EwShapes(cur.sh) : /\ BOk(cur.sh, p) = BOk(p, cur.sh)
                                            /\ BOk(cur.sh, p) => (BShape(cur.sh, p) = BShape(p, cur.sh)
                                                                  /\ Prod(BShape(cur.sh, p)) >= Prod(p))
InvFullSlice == Live => /\ GetItem(cur, <<SEll>>) = OK(cur)
                        /\ GetItem(cur, <<>>) = OK(cur)
                        /\ GetItem(cur, [k \in 1..Len(cur.sh) |-> Full]) = OK(cur)
InvConcatSplit == (Live /\ Len(cur.sh) >= 1) =>
    LET c == Concat2(cur, Neg(cur), 0) IN
    /\ c.ok
    /\ GetItem(c.a, <<SSl(None, cur.sh[1], None)>>) = OK(cur)
    /\ GetItem(c.a, <<SSl(cur.sh[1], None, None)>>) = OK(Neg(cur))
\* x @ I = x and the transpose law (A @ x).T = x.T @ A.T on 2-D
Eye(n) == [sh |-> <<n, n>>, d |-> [e \in 1..(n * n) |-> K(IF (e - 1) \div n = (e - 1) % n THEN 1 ELSE 0)]]
InvMatMulId == (Live /\ Len(cur.sh) >= 1) => MatMul(cur, Eye(cur.sh[Len(cur.sh)])) = OK(cur)
InvMatMulT == (Live /\ Len(cur.sh) = 2) =>
    LET c == CArr(Num(<<2, cur.sh[1]>>, 3)) IN T(MatMul(c, cur).a) = MatMul(T(cur), T(c)).a
InvTri == (Live /\ Len(cur.sh) = 2) =>
    /\ Add(Tril(cur, 0 - 1), Triu(cur, 0)) = OK(cur)
    /\ Sub(Tril(cur, 0), Tril(cur, 0 - 1)) = OK(DiagFill(cur, 0))
    /\ SumAll(Diag(cur, 0)) = Trace(cur)

-----------------------------------------------------------------------------
(* export for the replay *)
ExportRec == [hist |-> hist, status |-> status, why |-> why, kind |-> kind,
              xs |-> XShape, zs |-> IF HasZ THEN ZShape ELSE <<>>, hz |-> HasZ, nv |-> NV, nr |-> NR,
              sh |-> cur.sh, d |-> cur.d]
Export == PrintT(ToJson(ExportRec))
ExportLeaves == (Depth = MaxDepth \/ status # "ok") => PrintT(ToJson(ExportRec))
=============================================================================
