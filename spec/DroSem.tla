------------------------------- MODULE DroSem -------------------------------
(***************************************************************************)
(* Denotational semantics of rsome.dro models on a grid-exact family       *)
(* (C03 safety for every distribution of the ambiguity set, C04 exactness).*)
(*                                                                         *)
(* A declared model: S scenarios; a 2-dimensional random vector z; per     *)
(* scenario a support polytope (vertex list); a polyhedral set of scenario *)
(* probabilities (vertex list, integer weights over DEN); optional         *)
(* expectation sets on the full event and/or on a sub-event; one static    *)
(* decision x in [-XB, XB] and                                             *)
(*   form "B": objective  minsup E( max(piece1, piece2) )                  *)
(*   form "A": an adaptive decision y (event-wise static / affine in z per *)
(*             declared partition and mask), rows y >= piece_l(x, z) for   *)
(*             every scenario and realisation, objective minsup E(c x + y) *)
(* optionally an expectation constraint  E(h(x, z)) <= 0.                  *)
(* piece(x, z) = ax*x + az.z + (axz.z)*x + b.                              *)
(*                                                                         *)
(* Generator mode: every program with the finite family Members(F) of      *)
(* extreme member distributions TLC can write down exactly (a vertex of    *)
(* the probability set and a point mass at a support vertex per scenario,  *)
(* kept only if it satisfies every expectation constraint - checked in     *)
(* exact rational arithmetic), and the exact optimum on the sub-families   *)
(* where Members is sufficient (no expectation information).               *)
(* Validator mode: post-condition of C03 on the values returned by the     *)
(* library, at every member and at every vertex of every support.          *)
(***************************************************************************)
EXTENDS Integers, Sequences, FiniteSets, TLC, FiniteSetsExt, SequencesExt, Json

CONSTANTS NSs,        \* set of scenario counts
          SuppKinds, ProbKinds, ExptKinds, Forms, PieceSets, EConChoices, Parts, Affs, IntChoices,
          XB, Results, SC

DEN == 60
Zc(s) == CASE s = 1 -> <<1, 0>> [] s = 2 -> <<-1, 2>> [] s = 3 -> <<0, -2>>   \* scenario centres

\* ---------------------------------------------------------------- supports (vertex lists)
BoxV(l1, u1, l2, u2) == {<<a, b>> : a \in {l1, u1}, b \in {l2, u2}}
SuppVert(kind, s) ==
    LET c == Zc(s) IN
    CASE kind = 1 -> {c}                                                   \* singleton z == c
      [] kind = 2 -> BoxV(c[1] - 1, c[1] + 1, c[2] - 1, c[2] + 1)         \* box around the centre
      [] kind = 3 -> BoxV(-2, 2, -2, 2)                                    \* common box (one suppset for all)
      [] kind = 4 -> {<<c[1] + 1, c[2]>>, <<c[1] - 1, c[2]>>, <<c[1], c[2] + 1>>, <<c[1], c[2] - 1>>}  \* 1-norm ball
      [] kind = 5 -> BoxV(0, 3, 0, 3)                                      \* non-negative box
      [] kind = 6 -> IF s = 1 THEN {c} ELSE BoxV(c[1] - 1, c[1] + 1, c[2] - 1, c[2] + 1)   \* mixed
      \* kind 7: the box of kind 2; scenarios 1 and 3 carry in addition the (there redundant) exponential-cone
      \* constraint exp(z2) <= exp(c2 + 1): it lands in another list of the shared support model, and must not
      \* be applied to the other scenarios
      [] kind = 7 -> BoxV(c[1] - 1, c[1] + 1, c[2] - 1, c[2] + 1)
      \* kind 8: boxes of a different size per scenario (radius s in the first component): the best affine rule has a
      \* different slope in every scenario, so event-wise rules that wrongly share coefficients cost something
      [] kind = 8 -> BoxV(c[1] - s, c[1] + s, c[2] - 1, c[2] + 1)

\* ---------------------------------------------------------------- probability sets (vertices, weights / DEN)
Perms3(a, b, c) == {<<a, b, c>>, <<a, c, b>>, <<b, a, c>>, <<b, c, a>>, <<c, a, b>>, <<c, b, a>>}
ProbVert(kind, n) ==
    CASE kind = 1 -> IF n = 1 THEN {<<60>>} ELSE IF n = 2 THEN {<<30, 30>>} ELSE {<<20, 20, 20>>}       \* fixed uniform
      [] kind = 2 -> IF n = 1 THEN {<<60>>} ELSE IF n = 2 THEN {<<60, 0>>, <<0, 60>>}
                     ELSE {<<60, 0, 0>>, <<0, 60, 0>>, <<0, 0, 60>>}                                     \* simplex
      [] kind = 3 -> IF n = 1 THEN {<<60>>} ELSE IF n = 2 THEN {<<15, 45>>} ELSE {<<15, 30, 15>>}         \* fixed non-uniform
      [] kind = 4 -> IF n = 1 THEN {<<60>>} ELSE IF n = 2 THEN {<<36, 24>>, <<24, 36>>}
                     ELSE Perms3(36, 24, 0)                                                              \* p <= 3/5
      [] kind = 5 -> IF n = 1 THEN {<<60>>} ELSE IF n = 2 THEN {<<42, 18>>, <<18, 42>>}
                     ELSE Perms3(32, 8, 20)                                                              \* ||p - uniform||_1 <= 2/5

\* ---------------------------------------------------------------- expectation sets
\* a list of [event (set of scenarios), lo2, hi2]: bounds on 2*mean per component (so that halves are integers);
\* lo2 = hi2 encodes an equality; "none" = -INF / INF
INF == 100000
ExptSets(kind) ==
    CASE kind = 0 -> <<>>
      [] kind = 1 -> << [ev |-> "all", lo2 |-> <<-2, -2>>, hi2 |-> <<2, 2>>] >>               \* -1 <= E z <= 1
      [] kind = 2 -> << [ev |-> "all", lo2 |-> <<0, -2>>, hi2 |-> <<0, 2>>] >>                \* E z1 == 0, -1 <= E z2 <= 1
      [] kind = 3 -> << [ev |-> "first", lo2 |-> <<1, -1>>, hi2 |-> <<3, 1>>] >>              \* scenario 1: centre +- 1/2
      [] kind = 4 -> << [ev |-> "all", lo2 |-> <<-2, -2>>, hi2 |-> <<2, 2>>],
                        [ev |-> "firsttwo", lo2 |-> <<-1, 1>>, hi2 |-> <<1, 3>>] >>           \* plus: scenarios {1,2}: (0,1) +- 1/2
      [] kind = 5 -> << [ev |-> "lasttwo", lo2 |-> <<-1, 1>>, hi2 |-> <<1, 3>>] >>            \* a NON-prefix event: the last two scenarios
      [] kind = 6 -> << [ev |-> "firsttwo", lo2 |-> <<-2, -2>>, hi2 |-> <<2, 2>>],
                        [ev |-> "lasttwo", lo2 |-> <<-1, 0>>, hi2 |-> <<1, 2>>] >>            \* two overlapping events
Event(ev, n) == CASE ev = "all" -> 1..n [] ev = "first" -> {1} [] ev = "firsttwo" -> 1..(IF n >= 2 THEN 2 ELSE 1)
                  [] ev = "lasttwo" -> (IF n >= 2 THEN n - 1 ELSE 1)..n

\* ---------------------------------------------------------------- pieces
Pc(ax, az, axz, b) == [ax |-> ax, az |-> az, axz |-> axz, b |-> b]
Piece(t) ==
    CASE t = 1 -> Pc(-1, <<1, 0>>, <<0, 0>>, 0)        \*  z1 - x
      [] t = 2 -> Pc(2, <<-2, 0>>, <<0, 0>>, 0)        \*  2 (x - z1)
      [] t = 3 -> Pc(1, <<0, 1>>, <<0, 0>>, -1)        \*  x + z2 - 1
      [] t = 4 -> Pc(0, <<1, 1>>, <<1, 0>>, 0)         \*  z1 + z2 + z1 x
      [] t = 5 -> Pc(-1, <<0, 0>>, <<0, -1>>, 2)       \*  -x - z2 x + 2
      [] t = 6 -> Pc(1, <<-1, 1>>, <<0, 0>>, 0)        \*  x - z1 + z2
      [] t = 7 -> Pc(0, <<0, 0>>, <<0, 0>>, 0)         \*  0
      [] t = 8 -> Pc(1, <<0, 0>>, <<0, 0>>, -2)        \*  x - 2      (no random term, non-zero constant)
      [] t = 9 -> Pc(-2, <<0, 0>>, <<0, 0>>, 1)        \*  1 - 2x
      \* expectation-constraint templates  E(h) <= 0
      [] t = 11 -> Pc(-1, <<1, 0>>, <<0, 0>>, -1)      \*  z1 - x - 1
      [] t = 12 -> Pc(1, <<0, 1>>, <<0, 1>>, -4)       \*  x + z2 + z2 x - 4
PieceVal(pc, x, z, sc) == pc.ax * x + sc * (pc.az[1] * z[1] + pc.az[2] * z[2]) + (pc.axz[1] * z[1] + pc.axz[2] * z[2]) * x + sc * pc.b
PiecePairs(k) == CASE k = 1 -> <<1, 2>> [] k = 2 -> <<3, 4>> [] k = 3 -> <<5, 6>> [] k = 4 -> <<1, 7>> [] k = 5 -> <<4, 5>>
                   [] k = 6 -> <<1, 8>> [] k = 7 -> <<9, 4>>        \* one piece without random variables, constant # 0

Max2(a, b) == IF a >= b THEN a ELSE b

\* ---------------------------------------------------------------- members
\* a member = [w: weights tuple, v: tuple of one support vertex per scenario]
RECURSIVE Assignments(_, _, _)
Assignments(kind, s, n) == IF s > n THEN {<<>>}
                           ELSE {<<v>> \o rest : v \in SuppVert(kind, s), rest \in Assignments(kind, s + 1, n)}

MeanOK(p, w, v) ==
    \A i \in 1..Len(ExptSets(p.expt)) :
        LET e == ExptSets(p.expt)[i]
            ev == Event(e.ev, p.ns)
            W == MapThenSumSet(LAMBDA s : w[s], ev)
        IN \A c \in 1..2 :
              LET M == MapThenSumSet(LAMBDA s : w[s] * v[s][c], ev)
              IN e.lo2[c] * W <= 2 * M /\ 2 * M <= e.hi2[c] * W

Members(p) == {m \in [w : ProbVert(p.prob, p.ns), v : Assignments(p.supp, 1, p.ns)] : MeanOK(p, m.w, m.v)}

\* ---------------------------------------------------------------- semantics
ObjPiecePair(p) == PiecePairs(p.pieces)
FVal(p, x, z, sc) == Max2(PieceVal(Piece(ObjPiecePair(p)[1]), x, z, sc), PieceVal(Piece(ObjPiecePair(p)[2]), x, z, sc))

\* expectation (times DEN) of g over member m
ExpDen(m, n, g(_, _)) == MapThenSumSet(LAMBDA s : m.w[s] * g(s, m.v[s]), 1..n)

\* form B, no expectation information: the worst case puts each scenario's conditional mass on its worst vertex
WorstB(p, x) ==
    Max({MapThenSumSet(LAMBDA s : w[s] * Max({FVal(p, x, v, 1) : v \in SuppVert(p.supp, s)}), 1..p.ns)
           : w \in ProbVert(p.prob, p.ns)})
EConOK(p, x) ==
    p.econ = 0 \/
    \A w \in ProbVert(p.prob, p.ns) :
        MapThenSumSet(LAMBDA s : w[s] * Max({PieceVal(Piece(p.econ), x, v, 1) : v \in SuppVert(p.supp, s)}), 1..p.ns) <= 0
ExactB(p) == p.form = "B" /\ p.expt = 0
GridOptB(p) ==
    LET F == {x \in (-XB)..XB : EConOK(p, x)} IN
    IF F = {} THEN [feasible |-> FALSE, val |-> 0]
    ELSE [feasible |-> TRUE, val |-> Min({WorstB(p, x) : x \in F})]      \* value times DEN

\* ---------------------------------------------------------------- the family
EventOfScen(part, s) == CASE part = 0 -> 1 [] part = 1 -> s [] part = 2 -> IF s = 1 THEN 1 ELSE 2

WellFormed(p) ==
    /\ (p.form = "B" => p.part = 0 /\ p.aff = "a0")
    /\ (p.xint => p.form = "B" /\ p.supp # 7)       \* exponential-cone supports need ECOS: continuous only
    /\ (p.ns = 1 => p.part = 0 /\ p.prob = 1)
    /\ (p.part = 2 => p.ns = 3)
    /\ Members(p) # {}
    /\ (p.supp \in {1, 6} => p.aff = "a0")          \* affine rules on singleton supports are degenerate

Programs ==
    {p \in [ns : NSs, supp : SuppKinds, prob : ProbKinds, expt : ExptKinds, form : Forms, pieces : PieceSets,
            econ : EConChoices, part : Parts, aff : Affs, xint : IntChoices] : WellFormed(p)}

VARIABLES prog, res
vars == <<prog, res>>
Init == IF Results = {} THEN res = [tid |-> 0] /\ prog \in Programs
        ELSE res \in Results /\ prog = res.prog
Next == UNCHANGED vars
Spec == Init /\ [][Next]_vars

Rec(p) ==
    LET g == IF ExactB(p) THEN GridOptB(p) ELSE [feasible |-> FALSE, val |-> 0] IN
    [prog |-> p,
     verts |-> [s \in 1..p.ns |-> SetToSeq(SuppVert(p.supp, s))],
     centres |-> [s \in 1..p.ns |-> Zc(s)],
     pverts |-> SetToSeq(ProbVert(p.prob, p.ns)),
     expts |-> [i \in 1..Len(ExptSets(p.expt)) |->
                  [ev |-> SetToSeq(Event(ExptSets(p.expt)[i].ev, p.ns)), lo2 |-> ExptSets(p.expt)[i].lo2, hi2 |-> ExptSets(p.expt)[i].hi2]],
     piece1 |-> Piece(ObjPiecePair(p)[1]), piece2 |-> Piece(ObjPiecePair(p)[2]),
     econ |-> IF p.econ = 0 THEN Piece(7) ELSE Piece(p.econ),
     events |-> [s \in 1..p.ns |-> EventOfScen(p.part, s)],
     nmembers |-> Cardinality(Members(p)),
     exact |-> ExactB(p), gridFeasible |-> g.feasible, gridOptDen |-> g.val]

Export == res.tid # 0 \/ PrintT(ToJson(Rec(prog)))

\* ---------------------------------------------------------------- validator (code -> spec)
\* res = [tid, prog, status, x, obj, ys: per scenario <<y0, Y1, Y2>>, tol, exact, gridFeasible, gridOptDen] (scaled by SC)
P == prog
YAt(s, v) == res.ys[s][1] + res.ys[s][2] * v[1] + res.ys[s][3] * v[2]

PostRows ==   \* form A: rows written without E hold for every scenario and every realisation of its support
    P.form = "B" \/
    \A s \in 1..P.ns : \A v \in SuppVert(P.supp, s) : \A l \in 1..2 :
        YAt(s, v) >= PieceVal(Piece(ObjPiecePair(P)[l]), res.x, v, SC) - res.tol
PostObj ==    \* the reported optimum bounds the expectation under every member distribution
    \A m \in Members(P) :
        IF P.form = "B"
        THEN ExpDen(m, P.ns, LAMBDA s, v : FVal(P, res.x, v, SC)) <= DEN * (res.obj + res.tol)
        ELSE ExpDen(m, P.ns, LAMBDA s, v : YAt(s, v)) <= DEN * (res.obj + res.tol)
PostECon ==
    P.econ = 0 \/
    \A m \in Members(P) : ExpDen(m, P.ns, LAMBDA s, v : PieceVal(Piece(P.econ), res.x, v, SC)) <= DEN * res.tol
PostNonAnticip ==   \* C13: one rule per declared event, dependence only on declared components
    P.form = "B" \/
    /\ \A s, t \in 1..P.ns : EventOfScen(P.part, s) = EventOfScen(P.part, t) =>
           \A c \in 1..3 : res.ys[s][c] - res.ys[t][c] <= 1 /\ res.ys[t][c] - res.ys[s][c] <= 1
    /\ \A s \in 1..P.ns : /\ (P.aff = "a0" => res.ys[s][2] = 0 /\ res.ys[s][3] = 0)
                          /\ (P.aff = "a1" => res.ys[s][3] = 0)
PostTight ==  \* C04, one-sided: not worse than the best grid decision (exact sub-family)
    (res.exact /\ res.gridFeasible) => DEN * (res.obj - res.tol) <= SC * res.gridOptDen
PostExact ==  \* C04: integer decision: equality
    (res.exact /\ res.gridFeasible /\ P.xint) => DEN * (res.obj + res.tol) >= SC * res.gridOptDen
PostStatus == (res.exact /\ res.gridFeasible) => res.status = "ok"

Verdict == [tid |-> res.tid,
            rows |-> res.status # "ok" \/ PostRows, obj |-> res.status # "ok" \/ PostObj,
            econ |-> res.status # "ok" \/ PostECon, nonanticip |-> res.status # "ok" \/ PostNonAnticip,
            tight |-> res.status # "ok" \/ PostTight, exact |-> res.status # "ok" \/ PostExact,
            status |-> PostStatus]
Validate == res.tid = 0 \/ PrintT(ToJson(Verdict))
=============================================================================
