------------------------------- MODULE DroSem -------------------------------
(***************************************************************************)
(* Denotational semantics of rsome.dro models on a grid-exact family       *)
(* (C03 safety for every distribution of the ambiguity set, C04 exactness).*)
(*                                                                         *)
(* A declared model: S scenarios; a 2-dimensional random vector z; per     *)
(* scenario a support polytope (vertex list); a polyhedral set of scenario *)
(* probabilities (vertex list, integer weights over DEN); optional         *)
(* expectation sets on the full event and/or on a sub-event; one static    *)
(* decision x in [-XB, XB] and                                             *)
(*   form "B": objective  minsup E( max(piece1, piece2) )                  *)
(*   form "A": an adaptive decision y (event-wise static / affine in z per *)
(*             declared partition and mask), rows y >= piece_l(x, z) for   *)
(*             every scenario and realisation, objective minsup E(c x + y) *)
(* optionally an expectation constraint  E(h(x, z)) <= 0.                  *)
(* piece(x, z) = ax*x + az.z + (axz.z)*x + b.                              *)
(*                                                                         *)
(* Generator mode: every program with the finite family Members(F) of      *)
(* extreme member distributions TLC can write down exactly (a vertex of    *)
(* the probability set and a point mass at a support vertex per scenario,  *)
(* kept only if it satisfies every expectation constraint - checked in     *)
(* exact rational arithmetic), and the exact optimum on the sub-families   *)
(* where Members is sufficient (no expectation information).               *)
(* Validator mode: post-condition of C03 on the values returned by the     *)
(* library, at every member and at every vertex of every support.          *)
(*                                                                         *)
(* Lifted supports (kinds 9-12): the model has an auxiliary random vector  *)
(* u (1 or 2 components) next to z; a support point is a tuple (z, u) of   *)
(* length 2 + NU; expectation sets may bound E(u) (mean absolute deviation *)
(* / Wasserstein-style sets); decisions may adapt affinely to u.  TLC      *)
(* writes down ATOMS (integer points verified by SuppMember, the exact     *)
(* definition of the declared set) and conditional distributions with ONE  *)
(* or TWO atoms per scenario (weights k/4), so that E(u) <= theta is       *)
(* active in members that move part of a scenario's mass away from the     *)
(* sample point.  Probability kinds 6-9 (KL divergence / 2-norm balls) are *)
(* not polyhedral: ProbVert lists rational INNER points (2-norm: verified  *)
(* here in integers; KL: verified by the harness from the definition), so  *)
(* the member check is a sound necessary condition; the C04 direction for  *)
(* these kinds is decided by the float oracle with inner/outer polygons.   *)
(*                                                                         *)
(* Further forms: "C" = objective minsup max(piece1, piece2) WITHOUT E (a  *)
(* piecewise objective: the worst case over the supports alone); rows with *)
(* their OWN support (rsupp # 0: constraint.forall(second ambiguity set) / *)
(* .forall(list of support constraints)) hold on that support while the    *)
(* objective is still taken over the ambiguity set of minsup; conic        *)
(* expectation sets || E z - mu || <= r in the 1-, inf- and 2-norm (kinds  *)
(* 12-15; membership exact in integers, also for the 2-norm).              *)
(***************************************************************************)
EXTENDS Integers, Sequences, FiniteSets, TLC, FiniteSetsExt, SequencesExt, Json

CONSTANTS NSs,        \* set of scenario counts
          SuppKinds, ProbKinds, ExptKinds, Forms, PieceSets, EConChoices, Parts, Affs, IntChoices, RowSupps,
          XB, Results, SC

DEN == 60
Zc(s) == CASE s = 1 -> <<1, 0>> [] s = 2 -> <<-1, 2>> [] s = 3 -> <<0, -2>>   \* scenario centres

\* ---------------------------------------------------------------- supports (vertex lists)
BoxV(l1, u1, l2, u2) == {<<a, b>> : a \in {l1, u1}, b \in {l2, u2}}
SuppVert(kind, s) ==
    LET c == Zc(s) IN
    CASE kind = 1 -> {c}                                                   \* singleton z == c
      [] kind = 2 -> BoxV(c[1] - 1, c[1] + 1, c[2] - 1, c[2] + 1)         \* box around the centre
      [] kind = 3 -> BoxV(-2, 2, -2, 2)                                    \* common box (one suppset for all)
      [] kind = 4 -> {<<c[1] + 1, c[2]>>, <<c[1] - 1, c[2]>>, <<c[1], c[2] + 1>>, <<c[1], c[2] - 1>>}  \* 1-norm ball
      [] kind = 5 -> BoxV(0, 3, 0, 3)                                      \* non-negative box
      [] kind = 6 -> IF s = 1 THEN {c} ELSE BoxV(c[1] - 1, c[1] + 1, c[2] - 1, c[2] + 1)   \* mixed
      \* kind 7: the box of kind 2; scenarios 1 and 3 carry in addition the (there redundant) exponential-cone
      \* constraint exp(z2) <= exp(c2 + 1): it lands in another list of the shared support model, and must not
      \* be applied to the other scenarios
      [] kind = 7 -> BoxV(c[1] - 1, c[1] + 1, c[2] - 1, c[2] + 1)
      \* kind 8: boxes of a different size per scenario (radius s in the first component): the best affine rule has a
      \* different slope in every scenario, so event-wise rules that wrongly share coefficients cost something
      [] kind = 8 -> BoxV(c[1] - s, c[1] + s, c[2] - 1, c[2] + 1)

\* ---------------------------------------------------------------- lifted supports (auxiliary random variables)
Max2(a, b) == IF a >= b THEN a ELSE b
Abs(a) == IF a >= 0 THEN a ELSE -a
NU(kind) == CASE kind = 9 -> 2 [] kind \in {10, 11, 12} -> 1 [] OTHER -> 0
Lifted(kind) == NU(kind) > 0
Dim(kind) == 2 + NU(kind)
\* the DECLARED set, exactly (integer points): a = <<z1, z2, u...>>, zhat_s = Zc(s)
SuppMember(kind, s, a) ==
    LET c == Zc(s)  d1 == Abs(a[1] - c[1])  d2 == Abs(a[2] - c[2]) IN
    CASE kind = 9  -> d1 <= 1 /\ d2 <= 1 /\ d1 <= a[3] /\ d2 <= a[4]                             \* z in c +- 1, |z - c| <= u
      [] kind = 10 -> Abs(a[1]) <= 3 /\ Abs(a[2]) <= 3 /\ d1 + d2 <= a[3]                        \* ||z - zhat||_1 <= u
      [] kind = 11 -> Abs(a[1]) <= 2 /\ Abs(a[2]) <= 2 /\ Max2(d1, d2) <= a[3] /\ a[3] <= 3      \* ||z - zhat||_inf <= u <= 3
      [] kind = 12 -> Abs(a[1]) <= 3 /\ Abs(a[2]) <= 3 /\ a[3] >= 0 /\ d1 * d1 + d2 * d2 <= a[3] * a[3]   \* ||z - zhat||_2 <= u
ZCand(kind, s) ==
    LET c == Zc(s) IN
    CASE kind = 9 -> {c, <<c[1] + 1, c[2]>>, <<c[1], c[2] - 1>>} \cup BoxV(c[1] - 1, c[1] + 1, c[2] - 1, c[2] + 1)
      [] kind = 11 -> BoxV(-2, 2, -2, 2) \cup {c}
      [] OTHER -> BoxV(-3, 3, -3, 3) \cup {c}
\* the smallest integer u that makes (z, u) a member (kinds 10-12), plus r
LiftAtom(kind, s, z, r) ==
    LET c == Zc(s)  d1 == Abs(z[1] - c[1])  d2 == Abs(z[2] - c[2]) IN
    CASE kind = 9  -> <<z[1], z[2], d1 + r, d2 + r>>
      [] kind = 10 -> <<z[1], z[2], d1 + d2 + r>>
      [] kind = 11 -> <<z[1], z[2], Max2(d1, d2) + r>>
      [] kind = 12 -> <<z[1], z[2], r + CHOOSE u \in 0..9 : d1 * d1 + d2 * d2 <= u * u /\ (u = 0 \/ (u - 1) * (u - 1) < d1 * d1 + d2 * d2)>>
Anchor(kind, s) == LiftAtom(kind, s, Zc(s), 0)                      \* the sample point itself, u = 0
TightAtoms(kind, s) == {a \in {LiftAtom(kind, s, z, 0) : z \in ZCand(kind, s)} : SuppMember(kind, s, a)}
Atoms(kind, s) ==
    IF Lifted(kind) THEN TightAtoms(kind, s) \cup {a \in {LiftAtom(kind, s, Zc(s), 1)} : SuppMember(kind, s, a)}
    ELSE SuppVert(kind, s)
\* points at which robust rows are checked: the atoms and, where u is unbounded above, points far along the recession direction
Raise(a, r1, r2) == IF Len(a) = 4 THEN <<a[1], a[2], a[3] + r1, a[4] + r2>> ELSE <<a[1], a[2], a[3] + r1>>
RowPoints(kind, s) ==
    Atoms(kind, s) \cup (IF kind \in {9, 10, 12} THEN {Raise(a, r[1], r[2]) : a \in TightAtoms(kind, s), r \in {<<5, 0>>, <<0, 5>>, <<5, 5>>}} ELSE {})
\* conditional distribution of a scenario: k/4 on atom a, (4-k)/4 on atom b
OneAtom(v) == [a |-> v, b |-> v, k |-> 4]
Singles(kind, s) == {OneAtom(v) : v \in Atoms(kind, s)}
Pairs(kind, s) == IF Lifted(kind) THEN {[a |-> v, b |-> Anchor(kind, s), k |-> k] : v \in TightAtoms(kind, s) \ {Anchor(kind, s)}, k \in {1, 2}} ELSE {}
CondDists(kind, s) == Singles(kind, s) \cup Pairs(kind, s)

\* ---------------------------------------------------------------- probability sets (vertices, weights / DEN)
Perms3(a, b, c) == {<<a, b, c>>, <<a, c, b>>, <<b, a, c>>, <<b, c, a>>, <<c, a, b>>, <<c, b, a>>}
ProbVert(kind, n) ==
    CASE kind = 1 -> IF n = 1 THEN {<<60>>} ELSE IF n = 2 THEN {<<30, 30>>} ELSE {<<20, 20, 20>>}       \* fixed uniform
      [] kind = 2 -> IF n = 1 THEN {<<60>>} ELSE IF n = 2 THEN {<<60, 0>>, <<0, 60>>}
                     ELSE {<<60, 0, 0>>, <<0, 60, 0>>, <<0, 0, 60>>}                                     \* simplex
      [] kind = 3 -> IF n = 1 THEN {<<60>>} ELSE IF n = 2 THEN {<<15, 45>>} ELSE {<<15, 30, 15>>}         \* fixed non-uniform
      [] kind = 4 -> IF n = 1 THEN {<<60>>} ELSE IF n = 2 THEN {<<36, 24>>, <<24, 36>>}
                     ELSE Perms3(36, 24, 0)                                                              \* p <= 3/5
      [] kind = 5 -> IF n = 1 THEN {<<60>>} ELSE IF n = 2 THEN {<<42, 18>>, <<18, 42>>}
                     ELSE Perms3(32, 8, 20)                                                              \* ||p - uniform||_1 <= 2/5
      \* non-polyhedral sets: INNER rational points (a necessary condition for C03)
      [] kind = 6 -> IF n = 1 THEN {<<60>>} ELSE IF n = 2 THEN {<<15, 45>>, <<45, 15>>}
                     ELSE {<<35, 12, 13>>, <<12, 35, 13>>, <<13, 12, 35>>, <<7, 29, 24>>, <<29, 24, 7>>, <<24, 7, 29>>}   \* KL(p || uniform) <= 0.131
      [] kind = 7 -> IF n = 1 THEN {<<60>>} ELSE IF n = 2 THEN {<<20, 40>>, <<40, 20>>}
                     ELSE Perms3(30, 10, 20)                                                             \* ||p - uniform||_2 <= sqrt(200)/60 (on the boundary)
      [] kind = 8 -> IF n = 1 THEN {<<60>>} ELSE IF n = 2 THEN {<<5, 55>>, <<27, 33>>}
                     ELSE {<<8, 43, 9>>, <<5, 34, 21>>, <<13, 20, 27>>, <<23, 17, 20>>, <<27, 24, 9>>, <<16, 39, 5>>}   \* KL(p || phat) <= 0.1, phat below
      [] kind = 9 -> IF n = 1 THEN {<<60>>} ELSE IF n = 2 THEN {<<7, 53>>, <<23, 37>>}
                     ELSE {<<6, 37, 17>>, <<8, 28, 24>>, <<17, 21, 22>>, <<24, 23, 13>>, <<22, 32, 6>>, <<8, 39, 13>>}  \* ||p - phat||_2 <= 1/5
PHat(kind, n) == IF kind \in {8, 9} THEN (IF n = 2 THEN <<15, 45>> ELSE <<15, 30, 15>>) ELSE (IF n = 2 THEN <<30, 30>> ELSE <<20, 20, 20>>)
R2Den(kind) == IF kind = 7 THEN 200 ELSE 144           \* (r * DEN)^2
\* the 2-norm catalogues are members, exactly; every catalogue is a set of probability vectors
ASSUME \A kind \in {7, 9}, n \in {2, 3} : \A w \in ProbVert(kind, n) :
           MapThenSumSet(LAMBDA i : (w[i] - PHat(kind, n)[i]) * (w[i] - PHat(kind, n)[i]), 1..n) <= R2Den(kind)
ASSUME \A kind \in 1..9, n \in 1..3 : \A w \in ProbVert(kind, n) :
           Len(w) = n /\ MapThenSumSet(LAMBDA i : w[i], 1..n) = DEN /\ \A i \in 1..n : w[i] >= 0

\* ---------------------------------------------------------------- expectation sets
\* a list of [event (set of scenarios), lo2, hi2]: bounds on 2*mean per component (so that halves are integers);
\* lo2 = hi2 encodes an equality; "none" = -INF / INF
\* lo2 / hi2 have four entries <<z1, z2, u1, u2>>; only the first Dim(supp) are used
INF == 100000
Free2 == <<INF, INF>>
NFree2 == <<-INF, -INF>>
Ex(ev, lo2, hi2, uhi2) == [ev |-> ev, lo2 |-> lo2 \o NFree2, hi2 |-> hi2 \o <<uhi2, uhi2>>, norm |-> 0, mu2 |-> <<0, 0>>, r2 |-> 0]
\* conic set on the mean of z: || E z - mu2/2 ||_norm <= r2/2  (norm: 1, 2, 3 = inf)
ExN(ev, norm, mu2, r2) == [ev |-> ev, lo2 |-> NFree2 \o NFree2, hi2 |-> Free2 \o Free2, norm |-> norm, mu2 |-> mu2, r2 |-> r2]
ExptSets(kind) ==
    CASE kind = 0 -> <<>>
      [] kind = 1 -> << Ex("all", <<-2, -2>>, <<2, 2>>, INF) >>                                 \* -1 <= E z <= 1
      [] kind = 2 -> << Ex("all", <<0, -2>>, <<0, 2>>, INF) >>                                  \* E z1 == 0, -1 <= E z2 <= 1
      [] kind = 3 -> << Ex("first", <<1, -1>>, <<3, 1>>, INF) >>                                \* scenario 1: centre +- 1/2
      [] kind = 4 -> << Ex("all", <<-2, -2>>, <<2, 2>>, INF),
                        Ex("firsttwo", <<-1, 1>>, <<1, 3>>, INF) >>                             \* plus: scenarios {1,2}: (0,1) +- 1/2
      [] kind = 5 -> << Ex("lasttwo", <<-1, 1>>, <<1, 3>>, INF) >>                              \* a NON-prefix event: the last two scenarios
      [] kind = 6 -> << Ex("firsttwo", <<-2, -2>>, <<2, 2>>, INF),
                        Ex("lasttwo", <<-1, 0>>, <<1, 2>>, INF) >>                              \* two overlapping events
      \* expectation information on the auxiliary variable (lifted supports only)
      [] kind = 7 -> << Ex("all", NFree2, Free2, 1) >>                                          \* E u <= 1/2  (Wasserstein radius / MAD bound)
      [] kind = 8 -> << Ex("all", <<-2, -2>>, <<2, 2>>, 2) >>                                   \* -1 <= E z <= 1 and E u <= 1 in ONE set
      [] kind = 9 -> << Ex("first", NFree2, Free2, 1), Ex("all", NFree2, Free2, 3) >>           \* scenario 1: E u <= 1/2; all: E u <= 3/2
      [] kind = 10 -> << Ex("first", <<2, 0>>, <<2, 0>>, 1) >>                                  \* scenario 1: E z == its centre, E u <= 1/2 (MAD information)
      [] kind = 11 -> << Ex("lasttwo", NFree2, Free2, 2), Ex("all", <<-2, -2>>, <<2, 2>>, INF) >>  \* u bounded on a non-prefix event, z on all
      \* conic expectation (moment) sets
      [] kind = 12 -> << ExN("all", 1, <<0, 1>>, 3) >>                                          \* || E z - (0, 1/2) ||_1 <= 3/2
      [] kind = 13 -> << ExN("lasttwo", 3, <<0, 0>>, 2) >>                                      \* last two scenarios: || E z ||_inf <= 1
      [] kind = 14 -> << ExN("all", 2, <<0, 1>>, 3) >>                                          \* || E z - (0, 1/2) ||_2 <= 3/2
      [] kind = 15 -> << ExN("firsttwo", 2, <<0, 2>>, 2), Ex("all", <<-2, -2>>, <<2, 2>>, INF) >>  \* first two: || E z - (0, 1) ||_2 <= 1; all: box
Event(ev, n) == CASE ev = "all" -> 1..n [] ev = "first" -> {1} [] ev = "firsttwo" -> 1..(IF n >= 2 THEN 2 ELSE 1)
                  [] ev = "lasttwo" -> (IF n >= 2 THEN n - 1 ELSE 1)..n

\* ---------------------------------------------------------------- pieces
Pc(ax, az, axz, b) == [ax |-> ax, az |-> az, axz |-> axz, b |-> b]
Piece(t) ==
    CASE t = 1 -> Pc(-1, <<1, 0>>, <<0, 0>>, 0)        \*  z1 - x
      [] t = 2 -> Pc(2, <<-2, 0>>, <<0, 0>>, 0)        \*  2 (x - z1)
      [] t = 3 -> Pc(1, <<0, 1>>, <<0, 0>>, -1)        \*  x + z2 - 1
      [] t = 4 -> Pc(0, <<1, 1>>, <<1, 0>>, 0)         \*  z1 + z2 + z1 x
      [] t = 5 -> Pc(-1, <<0, 0>>, <<0, -1>>, 2)       \*  -x - z2 x + 2
      [] t = 6 -> Pc(1, <<-1, 1>>, <<0, 0>>, 0)        \*  x - z1 + z2
      [] t = 7 -> Pc(0, <<0, 0>>, <<0, 0>>, 0)         \*  0
      [] t = 8 -> Pc(1, <<0, 0>>, <<0, 0>>, -2)        \*  x - 2      (no random term, non-zero constant)
      [] t = 9 -> Pc(-2, <<0, 0>>, <<0, 0>>, 1)        \*  1 - 2x
      \* expectation-constraint templates  E(h) <= 0
      [] t = 11 -> Pc(-1, <<1, 0>>, <<0, 0>>, -1)      \*  z1 - x - 1
      [] t = 12 -> Pc(1, <<0, 1>>, <<0, 1>>, -4)       \*  x + z2 + z2 x - 4
PieceVal(pc, x, z, sc) == pc.ax * x + sc * (pc.az[1] * z[1] + pc.az[2] * z[2]) + (pc.axz[1] * z[1] + pc.axz[2] * z[2]) * x + sc * pc.b
PiecePairs(k) == CASE k = 1 -> <<1, 2>> [] k = 2 -> <<3, 4>> [] k = 3 -> <<5, 6>> [] k = 4 -> <<1, 7>> [] k = 5 -> <<4, 5>>
                   [] k = 6 -> <<1, 8>> [] k = 7 -> <<9, 4>>        \* one piece without random variables, constant # 0

\* ---------------------------------------------------------------- members
\* a member = [w: weights tuple, v: tuple of one conditional distribution [a, b, k] per scenario]
\* at most `pairs` scenarios carry a two-atom conditional distribution (bounds the family: three scenarios -> one)
RECURSIVE Assignments(_, _, _, _)
Assignments(kind, s, n, pairs) ==
    IF s > n THEN {<<>>}
    ELSE {<<v>> \o rest : v \in Singles(kind, s), rest \in Assignments(kind, s + 1, n, pairs)}
         \cup (IF pairs > 0 THEN {<<v>> \o rest : v \in Pairs(kind, s), rest \in Assignments(kind, s + 1, n, pairs - 1)} ELSE {})

\* 4 * (conditional mean of component c in scenario s)
Mean4(cd, c) == cd.k * cd.a[c] + (4 - cd.k) * cd.b[c]
MeanOK(p, w, v) ==
    \A i \in 1..Len(ExptSets(p.expt)) :
        LET e == ExptSets(p.expt)[i]
            ev == Event(e.ev, p.ns)
            W == 4 * MapThenSumSet(LAMBDA s : w[s], ev)
            MC(c) == MapThenSumSet(LAMBDA s : w[s] * Mean4(v[s], c), ev)       \* W * (conditional mean of component c)
            D(c) == 2 * MC(c) - e.mu2[c] * W                                    \* 2 W * (mean - mu)
        IN /\ \A c \in 1..Dim(p.supp) :
                 (e.lo2[c] > -INF => e.lo2[c] * W <= 2 * MC(c)) /\ (e.hi2[c] < INF => 2 * MC(c) <= e.hi2[c] * W)
           /\ (e.norm = 1 => Abs(D(1)) + Abs(D(2)) <= e.r2 * W)
           /\ (e.norm = 3 => Max2(Abs(D(1)), Abs(D(2))) <= e.r2 * W)
           /\ (e.norm = 2 => D(1) * D(1) + D(2) * D(2) <= (e.r2 * W) * (e.r2 * W))

MemberSpace(p) == [w : ProbVert(p.prob, p.ns), v : Assignments(p.supp, 1, p.ns, IF p.ns >= 3 THEN 1 ELSE 2)]
Members(p) == {m \in MemberSpace(p) : MeanOK(p, m.w, m.v)}
\* non-emptiness; lifted kinds: first try the members that keep all mass on the sample points (cheap), then search
HasMember(p) ==
    \/ Lifted(p.supp) /\ \E w \in ProbVert(p.prob, p.ns) : MeanOK(p, w, [s \in 1..p.ns |-> OneAtom(Anchor(p.supp, s))])
    \/ \E m \in MemberSpace(p) : MeanOK(p, m.w, m.v)

\* ---------------------------------------------------------------- semantics
ObjPiecePair(p) == PiecePairs(p.pieces)
FVal(p, x, z, sc) == Max2(PieceVal(Piece(ObjPiecePair(p)[1]), x, z, sc), PieceVal(Piece(ObjPiecePair(p)[2]), x, z, sc))

\* expectation (times 4 * DEN) of g over member m
ExpDen(m, n, g(_, _)) == MapThenSumSet(LAMBDA s : m.w[s] * (m.v[s].k * g(s, m.v[s].a) + (4 - m.v[s].k) * g(s, m.v[s].b)), 1..n)

\* form B, no expectation information: the worst case puts each scenario's conditional mass on its worst vertex
WorstB(p, x) ==
    Max({MapThenSumSet(LAMBDA s : w[s] * Max({FVal(p, x, v, 1) : v \in SuppVert(p.supp, s)}), 1..p.ns)
           : w \in ProbVert(p.prob, p.ns)})
\* expectation constraints: econ = t means E(Piece(t)) <= 0, econ = 100 + t means the EQUALITY E(Piece(t)) == 0 (both directions
\* for every member distribution)
EEq(p) == p.econ >= 100
EIdx(p) == IF p.econ >= 100 THEN p.econ - 100 ELSE p.econ
EConOK(p, x) ==
    p.econ = 0 \/
    \A w \in ProbVert(p.prob, p.ns) :
        /\ MapThenSumSet(LAMBDA s : w[s] * Max({PieceVal(Piece(EIdx(p)), x, v, 1) : v \in SuppVert(p.supp, s)}), 1..p.ns) <= 0
        /\ EEq(p) => MapThenSumSet(LAMBDA s : w[s] * Min({PieceVal(Piece(EIdx(p)), x, v, 1) : v \in SuppVert(p.supp, s)}), 1..p.ns) >= 0
ExactB(p) == p.form = "B" /\ p.expt = 0 /\ ~Lifted(p.supp) /\ p.prob <= 5
\* form C: the worst case over the supports alone (every scenario, whatever its probability)
WorstC(p, x) == Max({FVal(p, x, v, 1) : v \in UNION {SuppVert(p.supp, s) : s \in 1..p.ns}})
ExactC(p) == p.form = "C" /\ ~Lifted(p.supp) /\ (p.econ = 0 \/ (p.expt = 0 /\ p.prob <= 5))
GridOptC(p) ==
    LET F == {x \in (-XB)..XB : EConOK(p, x)} IN
    IF F = {} THEN [feasible |-> FALSE, val |-> 0]
    ELSE [feasible |-> TRUE, val |-> DEN * Min({WorstC(p, x) : x \in F})]      \* value times DEN
GridOptB(p) ==
    LET F == {x \in (-XB)..XB : EConOK(p, x)} IN
    IF F = {} THEN [feasible |-> FALSE, val |-> 0]
    ELSE [feasible |-> TRUE, val |-> Min({WorstB(p, x) : x \in F})]      \* value times DEN

\* ---------------------------------------------------------------- the family
EventOfScen(part, s) == CASE part = 0 -> 1 [] part = 1 -> s [] part = 2 -> IF s = 1 THEN 1 ELSE 2

WellFormed(p) ==
    /\ (p.form # "A" => p.part = 0 /\ p.aff = "a0" /\ p.rsupp = 0)
    /\ (p.xint => p.form # "A" /\ p.supp \notin {7, 12} /\ p.prob <= 5 /\ p.expt \notin {14, 15})   \* cone programs (ECOS / time-limited Gurobi): continuous only
    /\ (p.expt \in 7..11 => Lifted(p.supp))         \* expectation information on u needs u
    \* rows with their own support: every support used contains the scenario centre (else the affine program is unbounded);
    \* plain z-supports only; kind 3 (one common box) is the one given as a list of constraints
    /\ (p.rsupp # 0 => p.rsupp # p.supp /\ p.rsupp \in {1, 2, 3, 4, 8} /\ p.supp \in {2, 3, 4, 8} /\ (p.rsupp = 1 => p.aff = "a0"))
    /\ (p.aff \in {"au", "a12u"} => Lifted(p.supp))
    /\ (p.ns = 1 => p.part = 0 /\ p.prob = 1)
    /\ (p.part = 2 => p.ns = 3)
    /\ HasMember(p)
    /\ (EEq(p) => p.form \in {"B", "C"} /\ p.expt = 0 /\ ~Lifted(p.supp) /\ p.prob <= 5 /\ p.rsupp = 0)   \* equalities: in the exactly decided sub-family only
    /\ (p.supp \in {1, 6} => p.aff = "a0")          \* affine rules on singleton supports are degenerate

Programs ==
    {p \in [ns : NSs, supp : SuppKinds, prob : ProbKinds, expt : ExptKinds, form : Forms, pieces : PieceSets,
            econ : EConChoices, part : Parts, aff : Affs, xint : IntChoices, rsupp : RowSupps] : WellFormed(p)}

VARIABLES prog, res
vars == <<prog, res>>
Init == IF Results = {} THEN res = [tid |-> 0] /\ prog \in Programs
        ELSE res \in Results /\ prog = res.prog
Next == UNCHANGED vars
Spec == Init /\ [][Next]_vars

Rec(p) ==
    LET g == IF ExactB(p) THEN GridOptB(p) ELSE IF ExactC(p) THEN GridOptC(p) ELSE [feasible |-> FALSE, val |-> 0] IN
    [prog |-> p,
     verts |-> [s \in 1..p.ns |-> SetToSeq(Atoms(p.supp, s))],      \* lifted kinds: the atoms (the oracle enumerates the true vertices itself)
     nu |-> NU(p.supp),
     rverts |-> [s \in 1..p.ns |-> IF p.rsupp = 0 THEN <<>> ELSE SetToSeq(SuppVert(p.rsupp, s))],     \* the rows' own support
     centres |-> [s \in 1..p.ns |-> Zc(s)],
     pverts |-> SetToSeq(ProbVert(p.prob, p.ns)),
     expts |-> [i \in 1..Len(ExptSets(p.expt)) |->
                  [ev |-> SetToSeq(Event(ExptSets(p.expt)[i].ev, p.ns)), lo2 |-> ExptSets(p.expt)[i].lo2, hi2 |-> ExptSets(p.expt)[i].hi2,
                   norm |-> ExptSets(p.expt)[i].norm, mu2 |-> ExptSets(p.expt)[i].mu2, r2 |-> ExptSets(p.expt)[i].r2]],
     piece1 |-> Piece(ObjPiecePair(p)[1]), piece2 |-> Piece(ObjPiecePair(p)[2]),
     econ |-> IF p.econ = 0 THEN Piece(7) ELSE Piece(EIdx(p)), econEq |-> EEq(p),
     events |-> [s \in 1..p.ns |-> EventOfScen(p.part, s)],
     nmembers |-> IF Lifted(p.supp) THEN -1 ELSE Cardinality(Members(p)),      \* lifted: counted by the validator
     exact |-> ExactB(p) \/ ExactC(p), gridFeasible |-> g.feasible, gridOptDen |-> g.val]

Export == res.tid # 0 \/ PrintT(ToJson(Rec(prog)))

\* ---------------------------------------------------------------- validator (code -> spec)
\* res = [tid, prog, status, x, obj, ys: per scenario <<y0, Y1, Y2, U1, U2>>, tol, exact, gridFeasible, gridOptDen] (scaled by SC)
P == prog
YAt(s, v) == res.ys[s][1] + res.ys[s][2] * v[1] + res.ys[s][3] * v[2]
             + (IF Len(v) >= 3 THEN res.ys[s][4] * v[3] ELSE 0) + (IF Len(v) >= 4 THEN res.ys[s][5] * v[4] ELSE 0)

RowSupport(s) == IF P.rsupp = 0 THEN RowPoints(P.supp, s) ELSE SuppVert(P.rsupp, s)      \* the rows' own support if they have one
PostRows ==   \* form A: rows written without E hold for every scenario and every realisation of its support
    P.form # "A" \/
    \A s \in 1..P.ns : \A v \in RowSupport(s) : \A l \in 1..2 :
        YAt(s, v) >= PieceVal(Piece(ObjPiecePair(P)[l]), res.x, v, SC) - res.tol
PostObj(M) ==    \* the reported optimum bounds the expectation under every member distribution
    IF P.form = "C"      \* no expectation: the optimum bounds the objective at every realisation of every scenario
    THEN \A s \in 1..P.ns : \A v \in RowPoints(P.supp, s) : FVal(P, res.x, v, SC) <= res.obj + res.tol
    ELSE
    \A m \in M :
        IF P.form = "B"
        THEN ExpDen(m, P.ns, LAMBDA s, v : FVal(P, res.x, v, SC)) <= 4 * DEN * (res.obj + res.tol)
        ELSE ExpDen(m, P.ns, LAMBDA s, v : YAt(s, v)) <= 4 * DEN * (res.obj + res.tol)
PostECon(M) ==
    P.econ = 0 \/
    \A m \in M : /\ ExpDen(m, P.ns, LAMBDA s, v : PieceVal(Piece(EIdx(P)), res.x, v, SC)) <= 4 * DEN * res.tol
                 /\ EEq(P) => ExpDen(m, P.ns, LAMBDA s, v : PieceVal(Piece(EIdx(P)), res.x, v, SC)) >= - 4 * DEN * res.tol
PostNonAnticip ==   \* C13: one rule per declared event, dependence only on declared components
    P.form # "A" \/
    /\ \A s, t \in 1..P.ns : EventOfScen(P.part, s) = EventOfScen(P.part, t) =>
           \A c \in 1..5 : res.ys[s][c] - res.ys[t][c] <= 1 /\ res.ys[t][c] - res.ys[s][c] <= 1
    /\ \A s \in 1..P.ns : /\ (P.aff = "a0" => \A c \in 2..5 : res.ys[s][c] = 0)
                          /\ (P.aff = "a1" => \A c \in 3..5 : res.ys[s][c] = 0)
                          /\ (P.aff = "a12" => \A c \in 4..5 : res.ys[s][c] = 0)
                          /\ (P.aff = "au" => \A c \in 2..3 : res.ys[s][c] = 0)
                          /\ \A c \in (4 + NU(P.supp))..5 : res.ys[s][c] = 0
PostTight ==  \* C04, one-sided: not worse than the best grid decision (exact sub-family)
    (res.exact /\ res.gridFeasible) => DEN * (res.obj - res.tol) <= SC * res.gridOptDen
PostExact ==  \* C04: integer decision: equality
    (res.exact /\ res.gridFeasible /\ P.xint) => DEN * (res.obj + res.tol) >= SC * res.gridOptDen
PostStatus == (res.exact /\ res.gridFeasible) => res.status = "ok"

Verdict == LET M == IF res.status = "ok" THEN Members(P) ELSE {} IN
           [tid |-> res.tid, nmem |-> Cardinality(M),
            rows |-> res.status # "ok" \/ PostRows, obj |-> res.status # "ok" \/ PostObj(M),
            econ |-> res.status # "ok" \/ PostECon(M), nonanticip |-> res.status # "ok" \/ PostNonAnticip,
            tight |-> res.status # "ok" \/ PostTight, exact |-> res.status # "ok" \/ PostExact,
            status |-> PostStatus]
Validate == res.tid = 0 \/ PrintT(ToJson(Verdict))
\* the atom catalogue of the lifted kinds is checked against the definition of the declared sets (vacuity: enough atoms,
\* the anchor and at least one two-atom conditional distribution per scenario)
ASSUME \A kind \in 9..12, s \in 1..3 :
           /\ \A a \in Atoms(kind, s) : Len(a) = Dim(kind) /\ SuppMember(kind, s, a)
           /\ \A a \in RowPoints(kind, s) : SuppMember(kind, s, a)
           /\ Anchor(kind, s) \in TightAtoms(kind, s)
           /\ Cardinality(TightAtoms(kind, s)) >= 3
           /\ Cardinality(CondDists(kind, s)) >= Cardinality(Atoms(kind, s)) + 4
=============================================================================
