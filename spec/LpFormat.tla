----------------------------- MODULE LpFormat -----------------------------
(***************************************************************************)
(* C16 - exports describe exactly the solved program.                      *)
(*                                                                         *)
(* Anchors: lp.py LinProg.lp_export / to_lp / showlc / show,               *)
(*          socp.py SOCProg.lp_export / showqc / show, gcp.py GCProg.show. *)
(*                                                                         *)
(* A program P (standard form of rsome: minimise obj.x subject to rows,    *)
(* bounds, types, cones  sum_{j in mem} x_j^2 <= x_h^2  with x_h >= 0 by   *)
(* its bound) is a record                                                  *)
(*   [cls, nv, one, n, m, A, ord, sense, rhs, lb, ub, vt, obj, cones]      *)
(* whose numbers are RANKS in a sorted, symmetric table of nv values       *)
(* (rank 1 = -inf, rank nv = +inf, rank (nv+1)/2 = 0, Neg(r) = nv+1-r,     *)
(* `one` = rank of 1.0; rank 0 = "a number that does not occur in P").     *)
(* The concrete table lives in harness/replay_lpformat.py; TLC needs       *)
(* equality, sign, order and negation only (DESIGN 1.2).  ord[i] is the    *)
(* sequence of columns STORED in row i of the sparse matrix, in storage    *)
(* order (a stored entry may be an explicit zero).                         *)
(*                                                                         *)
(* Part 1  the IDEAL: an acceptor for the token-event stream of an .lp     *)
(*         text and one for the cell-event stream of a show() frame; a     *)
(*         stream is accepted iff it denotes exactly P.                    *)
(* Part 2  the TRANSCRIPTION of the writers (what lp_export()/show() emit  *)
(*         for P, statement by statement).                                 *)
(* Part 3  GENERATOR of programs (GInit/GNext); invariants: the            *)
(*         transcribed writers are accepted by the ideal for every         *)
(*         generated program and mutilated streams are rejected; complete  *)
(*         programs are exported and drive the models the harness builds.  *)
(* Part 4  TRACE VALIDATOR (TInit/TNext): consumes, one event per step,    *)
(*         the streams lexed from the REAL lp_export()/show() output with  *)
(*         the projection of the REAL formula as P; prints ACCEPT / REJECT *)
(*         (ideal) and CONFORM / DRIFT (transcription) per trace.          *)
(*                                                                         *)
(* Events are uniform records [k, a, b, c, s, l] (k kind, a/b/c integers,  *)
(* s string, l sequence of integers); see the constructors below.          *)
(***************************************************************************)
EXTENDS Naturals, Integers, Sequences, FiniteSets, TLC, SequencesExt, FiniteSetsExt, Json

CONSTANTS NV,          \* generator: size of the value table (odd)
          One,         \* generator: rank of 1.0
          Cols,        \* generator: number of columns of every program
          MaxRows,     \* generator: at most this many linear rows
          CoefSet,     \* ranks a coefficient may take (finite ranks)
          RhsSet,      \* ranks a right-hand side may take
          LbSet,       \* ranks a lower bound may take (1 = -inf)
          UbSet,       \* ranks an upper bound may take (NV = +inf)
          VtSet,       \* subset of {"C","B","I"}
          ObjSet,      \* ranks an objective coefficient may take
          EzSet,       \* subset of {0,1,2}: zero entries of a row not stored / stored as 0.0 / as -0.0
          WithCone,    \* BOOLEAN: one second-order cone may be added
          ClsSet,      \* subset of {"LinProg","SOCProg","GCProg"} (lp / socp / ro Model)
          ModeSet,     \* subset of {"primal","dual","robust"}: which formula the harness exports: do_math(),
                       \* do_math(primal=False), or the robust counterpart of the program with row 1 uncertain
          DirSet,      \* subset of {"min","max"}
          LinShowFull, \* TRUE: LinProg.show() lists Obj/UB/LB/Type rows like SOCProg.show()
          TraceFile    \* trace validation: ndjson file, one [P, lp, show] per line; "" in generator runs

VARIABLES g,           \* generator state
          t            \* trace-validator state

vars == <<g, t>>

(* a constant-level definition: TLC reads the file once (a constant overridden in the cfg by an
   expression would be re-evaluated at every use) *)
Traces == IF TraceFile = "" THEN <<>> ELSE ndJsonDeserialize(TraceFile)

-----------------------------------------------------------------------------
(* value table *)
ZeroOf(nv) == (nv + 1) \div 2
NegOf(nv, r) == nv + 1 - r
NInf == 1
SetOfSeq(s) == {s[i] : i \in 1..Len(s)}

(* event constructors *)
Ev(k, a, b, c, s, l) == [k |-> k, a |-> a, b |-> b, c |-> c, s |-> s, l |-> l]
ESection(name)        == Ev("Section", 0, 0, 0, name, <<>>)
EObjTerm(sg, r, col)  == Ev("ObjTerm", sg, r, col, "", <<>>)
ERowStart(i)          == Ev("RowStart", i, 0, 0, "c", <<>>)
ETerm(sg, r, col)     == Ev("Term", sg, r, col, "", <<>>)
ERel(s)               == Ev("Rel", 0, 0, 0, s, <<>>)
ERhs(r)               == Ev("Rhs", 0, r, 0, "", <<>>)
EQRow(i, h, mem)      == Ev("QRow", i, 0, h, "ok", mem)
EBound(lo, col, hi)   == Ev("Bound", lo, hi, col, "", <<>>)
EGeneral(col)         == Ev("General", 0, 0, col, "", <<>>)
EBinary(col)          == Ev("Binary", 0, 0, col, "", <<>>)
EEnd                  == Ev("End", 0, 0, 0, "", <<>>)
ESHead(n)             == Ev("SHead", n, 0, 0, "ok", <<>>)
ESRow(kind, i)        == Ev("SRow", i, 0, 0, kind, <<>>)
ESCell(col, r, s)     == Ev("SCell", 0, r, col, s, <<>>)
ESSense(s)            == Ev("SSense", 0, 0, 0, s, <<>>)
ESConst(r, s)         == Ev("SConst", 0, r, 0, s, <<>>)
ESEnd                 == Ev("SEnd", 0, 0, 0, "", <<>>)
(* other events the lexer can emit (never written by rsome today):
   Free(c), Lower(a, c), Upper(b, c), Junk(s) *)

Signed(P, sg, r) == IF sg = 1 THEN r ELSE NegOf(P.nv, r)
IsCol(P, c) == c \in 1..P.n
Finite(P, r) == r \in 2..(P.nv - 1)
Known(P, r) == r \in 1..P.nv

-----------------------------------------------------------------------------
(* Part 1a: acceptor of the .lp token stream.                                *)
(* LP-format defaults: a column not mentioned in Bounds has [0, +inf).       *)

LpInit(P) ==
    [sec |-> "start", visited |-> {}, row |-> 0,
     cur |-> [j \in 1..P.n |-> ZeroOf(P.nv)], curset |-> {}, rel |-> "",
     rowsDone |-> {}, qDone |-> {},
     lo |-> [j \in 1..P.n |-> ZeroOf(P.nv)], hi |-> [j \in 1..P.n |-> P.nv],
     loDecl |-> {}, hiDecl |-> {}, gen |-> {}, bin |-> {},
     objv |-> [j \in 1..P.n |-> ZeroOf(P.nv)], objseen |-> {}]

MatchCone(P, st, h, mem) ==
    {k \in (1..Len(P.cones)) \ st.qDone :
        P.cones[k].h = h /\ SetOfSeq(P.cones[k].mem) = SetOfSeq(mem)}

ObjComplete(P, st) == \A j \in 1..P.n : st.objv[j] = P.obj[j]

(* the row just closed by its right-hand side; `a >= b` is read as `-a <= -b` *)
RowWhy(P, st, r) ==
    LET i == st.row
        Z == ZeroOf(P.nv)
        flip == st.rel = "ge"
        want(j) == IF flip THEN NegOf(P.nv, P.A[i][j]) ELSE P.A[i][j]
        wantb == IF flip THEN NegOf(P.nv, P.rhs[i]) ELSE P.rhs[i]
        wsense == IF st.rel = "eq" THEN "eq" ELSE "le"
    IN  IF P.sense[i] # wsense THEN "row-sense"
        ELSE IF \E j \in 1..P.n : want(j) = Z /\ st.cur[j] # Z THEN "row-extra-term"
        ELSE IF \E j \in 1..P.n : want(j) # Z /\ st.cur[j] = Z THEN "row-missing-term"
        ELSE IF \E j \in 1..P.n : st.cur[j] # want(j) /\ st.cur[j] = NegOf(P.nv, want(j)) THEN "row-sign"
        ELSE IF \E j \in 1..P.n : st.cur[j] # want(j) THEN "row-coef"
        ELSE IF r # wantb THEN (IF r = NegOf(P.nv, wantb) THEN "rhs-sign" ELSE "rhs-value")
        ELSE ""

In0(P, lo, hi) == lo <= ZeroOf(P.nv) /\ ZeroOf(P.nv) <= hi
In1(P, lo, hi) == lo <= P.one /\ P.one <= hi
BoundBad(P, st, j) ==
    IF P.vt[j] = "B"       \* domain {0,1} /\ [lo,hi]
    THEN \/ In0(P, st.lo[j], st.hi[j]) # In0(P, P.lb[j], P.ub[j])
         \/ In1(P, st.lo[j], st.hi[j]) # In1(P, P.lb[j], P.ub[j])
    ELSE st.lo[j] # P.lb[j] \/ st.hi[j] # P.ub[j]

BoundWhy(P, st) ==
    LET bad == {j \in 1..P.n : BoundBad(P, st, j)} IN
    IF bad = {} THEN ""
    ELSE LET j == Min(bad) IN
         IF P.vt[j] = "B" THEN "bound-binary-domain"
         ELSE IF st.lo[j] # P.lb[j]
              THEN (IF j \notin st.loDecl /\ P.lb[j] = NInf THEN "bound-free-column-defaults-to-nonneg"
                    ELSE IF j \notin st.loDecl THEN "bound-lower-missing"
                    ELSE "bound-lower")
              ELSE (IF j \notin st.hiDecl THEN "bound-upper-missing" ELSE "bound-upper")

EndWhy(P, st) ==
    IF st.rowsDone # 1..P.m THEN "row-missing"
    ELSE IF st.qDone # 1..Len(P.cones) THEN "cone-row-missing"
    ELSE IF BoundWhy(P, st) # "" THEN BoundWhy(P, st)
    ELSE IF st.gen # {j \in 1..P.n : P.vt[j] = "I"} THEN "general-section"
    ELSE IF st.bin # {j \in 1..P.n : P.vt[j] = "B"} THEN "binary-section"
    ELSE ""

LpWhy(st, e, P) ==
    LET Z == ZeroOf(P.nv) IN
    CASE st.sec = "end" -> "after-end"
      [] e.k = "Section" ->
            IF st.row # 0 THEN "section-inside-row"
            ELSE IF e.s \in {"min", "max"}
                 THEN (IF st.sec # "start" THEN "objective-not-first"
                       ELSE IF e.s = "max" THEN "maximize" ELSE "")
            ELSE IF e.s = "st"
                 THEN (IF st.sec # "obj" THEN "subject-to-misplaced"
                       ELSE IF ~ObjComplete(P, st) THEN "objective-term-missing" ELSE "")
            ELSE IF e.s \in {"bounds", "general", "binary"}
                 THEN (IF st.sec \notin {"st", "bounds", "general", "binary"} THEN "section-order"
                       ELSE IF e.s \in st.visited THEN "section-repeated" ELSE "")
            ELSE "section-unknown"
      [] e.k = "ObjTerm" ->
            IF st.sec # "obj" THEN "objective-term-misplaced"
            ELSE IF ~IsCol(P, e.c) THEN "unknown-column"
            ELSE IF ~Finite(P, e.b) THEN "foreign-number"
            ELSE IF e.b = Z THEN ""
            ELSE IF e.c \in st.objseen THEN "objective-duplicate-term"
            ELSE IF Signed(P, e.a, e.b) = P.obj[e.c] THEN ""
            ELSE IF Signed(P, e.a, e.b) = NegOf(P.nv, P.obj[e.c]) THEN "objective-sign"
            ELSE "objective-coef"
      [] e.k = "RowStart" ->
            IF st.sec # "st" THEN "row-outside-subject-to"
            ELSE IF st.row # 0 THEN "row-unfinished"
            ELSE IF e.a \notin 1..P.m THEN "row-unknown"
            ELSE IF e.a \in st.rowsDone THEN "row-duplicate"
            ELSE ""
      [] e.k = "Term" ->
            IF st.sec # "st" \/ st.row = 0 \/ st.rel # "" THEN "term-misplaced"
            ELSE IF ~IsCol(P, e.c) THEN "unknown-column"
            ELSE IF ~Finite(P, e.b) THEN "foreign-number"
            ELSE IF e.b = Z THEN ""
            ELSE IF e.c \in st.curset THEN "row-duplicate-term"
            ELSE ""
      [] e.k = "Rel" ->
            IF st.sec # "st" \/ st.row = 0 \/ st.rel # "" THEN "relation-misplaced"
            ELSE IF e.s \notin {"le", "eq", "ge"} THEN "relation-unknown"
            ELSE ""
      [] e.k = "Rhs" ->
            IF st.sec # "st" \/ st.row = 0 \/ st.rel = "" THEN "rhs-misplaced"
            ELSE IF ~Finite(P, e.b) THEN "foreign-number"
            ELSE RowWhy(P, st, e.b)
      [] e.k = "QRow" ->
            IF st.sec # "st" THEN "cone-row-outside-subject-to"
            ELSE IF st.row # 0 THEN "row-unfinished"
            ELSE IF e.s # "ok" THEN "cone-row-malformed"
            ELSE IF Cardinality(SetOfSeq(e.l)) # Len(e.l) THEN "cone-row-duplicate-member"
            ELSE IF MatchCone(P, st, e.c, e.l) = {} THEN "cone-row-not-in-program"
            ELSE ""
      [] e.k \in {"Bound", "Free", "Lower", "Upper"} ->
            IF st.sec # "bounds" THEN "bound-outside-bounds-section"
            ELSE IF ~IsCol(P, e.c) THEN "unknown-column"
            ELSE IF e.k \in {"Bound", "Lower", "Free"} /\ e.c \in st.loDecl THEN "bound-duplicate"
            ELSE IF e.k \in {"Bound", "Upper", "Free"} /\ e.c \in st.hiDecl THEN "bound-duplicate"
            ELSE IF e.k \in {"Bound", "Lower"} /\ ~Known(P, e.a) THEN "foreign-number"
            ELSE IF e.k \in {"Bound", "Upper"} /\ ~Known(P, e.b) THEN "foreign-number"
            ELSE ""
      [] e.k = "General" ->
            IF st.sec # "general" THEN "general-misplaced"
            ELSE IF ~IsCol(P, e.c) THEN "unknown-column"
            ELSE IF e.c \in st.gen THEN "general-duplicate" ELSE ""
      [] e.k = "Binary" ->
            IF st.sec # "binary" THEN "binary-misplaced"
            ELSE IF ~IsCol(P, e.c) THEN "unknown-column"
            ELSE IF e.c \in st.bin THEN "binary-duplicate" ELSE ""
      [] e.k = "End" ->
            IF st.sec \in {"start", "obj"} THEN "end-before-subject-to"
            ELSE IF st.row # 0 THEN "row-unfinished"
            ELSE EndWhy(P, st)
      [] OTHER -> "unknown-event"

LpUpd(st, e, P) ==
    LET Z == ZeroOf(P.nv) IN
    CASE e.k = "Section" ->
            [st EXCEPT !.sec = IF e.s \in {"min", "max"} THEN "obj" ELSE e.s,
                       !.visited = @ \cup {e.s}]
      [] e.k = "ObjTerm" ->
            IF e.b = Z THEN st
            ELSE [st EXCEPT !.objv[e.c] = Signed(P, e.a, e.b), !.objseen = @ \cup {e.c}]
      [] e.k = "RowStart" ->
            [st EXCEPT !.row = e.a, !.cur = [j \in 1..P.n |-> Z], !.curset = {}, !.rel = ""]
      [] e.k = "Term" ->
            IF e.b = Z THEN st
            ELSE [st EXCEPT !.cur[e.c] = Signed(P, e.a, e.b), !.curset = @ \cup {e.c}]
      [] e.k = "Rel" -> [st EXCEPT !.rel = e.s]
      [] e.k = "Rhs" -> [st EXCEPT !.rowsDone = @ \cup {st.row}, !.row = 0, !.rel = "",
                                  !.cur = [j \in 1..P.n |-> Z], !.curset = {}]
      [] e.k = "QRow" -> [st EXCEPT !.qDone = @ \cup {Min(MatchCone(P, st, e.c, e.l))}]
      [] e.k = "Bound" -> [st EXCEPT !.lo[e.c] = e.a, !.hi[e.c] = e.b,
                                    !.loDecl = @ \cup {e.c}, !.hiDecl = @ \cup {e.c}]
      [] e.k = "Free" -> [st EXCEPT !.lo[e.c] = NInf, !.hi[e.c] = P.nv,
                                   !.loDecl = @ \cup {e.c}, !.hiDecl = @ \cup {e.c}]
      [] e.k = "Lower" -> [st EXCEPT !.lo[e.c] = e.a, !.loDecl = @ \cup {e.c}]
      [] e.k = "Upper" -> [st EXCEPT !.hi[e.c] = e.b, !.hiDecl = @ \cup {e.c}]
      [] e.k = "General" -> [st EXCEPT !.gen = @ \cup {e.c}]
      [] e.k = "Binary" -> [st EXCEPT !.bin = @ \cup {e.c}]
      [] e.k = "End" -> [st EXCEPT !.sec = "end"]
      [] OTHER -> st

-----------------------------------------------------------------------------
(* Part 1b: acceptor of the show() cell stream *)

ShowInit(P) == [sec |-> "start", rk |-> "", ri |-> 0, cells |-> {}, ph |-> "", seen |-> {}]

ShowKinds == {"Obj", "LC", "QC", "UB", "LB", "Type"}

ConeCell(P, k, j) ==
    IF j = P.cones[k].h THEN NegOf(P.nv, P.one)
    ELSE IF j \in SetOfSeq(P.cones[k].mem) THEN P.one
    ELSE ZeroOf(P.nv)

WantCell(P, rk, ri, j) ==
    CASE rk = "Obj" -> P.obj[j]
      [] rk = "LC" -> P.A[ri][j]
      [] rk = "QC" -> ConeCell(P, ri, j)
      [] rk = "UB" -> P.ub[j]
      [] rk = "LB" -> P.lb[j]
      [] OTHER -> 0

WantSense(P, rk, ri) ==
    CASE rk = "LC" -> (IF P.sense[ri] = "eq" THEN "==" ELSE "<=")
      [] rk = "QC" -> "<="
      [] OTHER -> "-"

ShowMissing(P, st) ==
    (IF <<"Obj", 0>> \notin st.seen THEN "Obj+" ELSE "")
    \o (IF \E i \in 1..P.m : <<"LC", i>> \notin st.seen THEN "LC+" ELSE "")
    \o (IF \E k \in 1..Len(P.cones) : <<"QC", k>> \notin st.seen THEN "QC+" ELSE "")
    \o (IF <<"UB", 0>> \notin st.seen THEN "UB+" ELSE "")
    \o (IF <<"LB", 0>> \notin st.seen THEN "LB+" ELSE "")
    \o (IF <<"Type", 0>> \notin st.seen THEN "Type+" ELSE "")

ShowWhy(st, e, P) ==
    CASE st.sec = "end" -> "after-end"
      [] e.k = "SHead" ->
            IF st.sec # "start" THEN "header-misplaced"
            ELSE IF e.s # "ok" THEN "header-names"
            ELSE IF e.a # P.n THEN "header-width" ELSE ""
      [] e.k = "SRow" ->
            IF st.sec # "body" THEN "row-before-header"
            ELSE IF st.rk # "" THEN "row-unfinished"
            ELSE IF e.s \notin ShowKinds THEN "foreign-row"
            ELSE IF <<e.s, e.a>> \in st.seen THEN "row-duplicate"
            ELSE IF e.s = "LC" /\ e.a \notin 1..P.m THEN "row-index"
            ELSE IF e.s = "QC" /\ e.a \notin 1..Len(P.cones) THEN "row-index"
            ELSE IF e.s \notin {"LC", "QC"} /\ e.a # 0 THEN "row-index"
            ELSE ""
      [] e.k = "SCell" ->
            IF st.sec # "body" \/ st.rk = "" \/ st.ph # "cells" THEN "cell-misplaced"
            ELSE IF ~IsCol(P, e.c) THEN "unknown-column"
            ELSE IF e.c \in st.cells THEN "cell-duplicate"
            ELSE IF st.rk = "Type" THEN (IF e.s = P.vt[e.c] THEN "" ELSE "type-cell")
            ELSE IF e.s # "" \/ ~Known(P, e.b) THEN "cell-foreign-value"
            ELSE IF e.b = WantCell(P, st.rk, st.ri, e.c) THEN ""
            ELSE IF e.b = NegOf(P.nv, WantCell(P, st.rk, st.ri, e.c)) THEN "cell-sign:" \o st.rk
            ELSE "cell-value:" \o st.rk
      [] e.k = "SSense" ->
            IF st.sec # "body" \/ st.rk = "" \/ st.ph # "cells" THEN "sense-misplaced"
            ELSE IF st.cells # 1..P.n THEN "cell-missing"
            ELSE IF e.s = WantSense(P, st.rk, st.ri) THEN "" ELSE "sense-cell:" \o st.rk
      [] e.k = "SConst" ->
            IF st.sec # "body" \/ st.rk = "" \/ st.ph # "const" THEN "constant-misplaced"
            ELSE IF st.rk = "LC" THEN (IF e.s = "" /\ e.b = P.rhs[st.ri] THEN "" ELSE "constant-cell:LC")
            ELSE IF st.rk = "QC" THEN (IF e.s = "" /\ e.b = ZeroOf(P.nv) THEN "" ELSE "constant-cell:QC")
            ELSE (IF e.s = "-" THEN "" ELSE "constant-cell:" \o st.rk)
      [] e.k = "SEnd" ->
            IF st.sec # "body" THEN "end-before-header"
            ELSE IF st.rk # "" THEN "row-unfinished"
            ELSE IF ShowMissing(P, st) # "" THEN "missing-rows:" \o ShowMissing(P, st)
            ELSE ""
      [] OTHER -> "unknown-event"

ShowUpd(st, e, P) ==
    CASE e.k = "SHead" -> [st EXCEPT !.sec = "body"]
      [] e.k = "SRow" -> [st EXCEPT !.rk = e.s, !.ri = e.a, !.cells = {}, !.ph = "cells"]
      [] e.k = "SCell" -> [st EXCEPT !.cells = @ \cup {e.c}]
      [] e.k = "SSense" -> [st EXCEPT !.ph = "const"]
      [] e.k = "SConst" -> [st EXCEPT !.seen = @ \cup {<<st.rk, st.ri>>}, !.rk = "", !.ri = 0,
                                     !.cells = {}, !.ph = ""]
      [] e.k = "SEnd" -> [st EXCEPT !.sec = "end"]
      [] OTHER -> st

(* whole-stream acceptance (used by the generator invariants) *)
RECURSIVE RunLp(_, _, _, _)
RunLp(st, evs, k, P) ==
    IF k > Len(evs) THEN st.sec = "end"
    ELSE IF LpWhy(st, evs[k], P) # "" THEN FALSE
    ELSE RunLp(LpUpd(st, evs[k], P), evs, k + 1, P)
AcceptedLp(evs, P) == RunLp(LpInit(P), evs, 1, P)

RECURSIVE RunShow(_, _, _, _)
RunShow(st, evs, k, P) ==
    IF k > Len(evs) THEN st.sec = "end"
    ELSE IF ShowWhy(st, evs[k], P) # "" THEN FALSE
    ELSE RunShow(ShowUpd(st, evs[k], P), evs, k + 1, P)
AcceptedShow(evs, P) == RunShow(ShowInit(P), evs, 1, P)

-----------------------------------------------------------------------------
(* Part 2: transcription of the writers *)

SgnOf(P, r) == IF r < ZeroOf(P.nv) THEN 0 - 1 ELSE 1      \* '-' if coeff < 0 else '+'
AbsOf(P, r) == IF r < ZeroOf(P.nv) THEN NegOf(P.nv, r) ELSE r
ColSeq(P) == [j \in 1..P.n |-> j]

(* LinProg.lp_export (lp.py:5385) and the insertion made by SOCProg.lp_export (socp.py:385) *)
RenderLp(P) ==
    LET Z == ZeroOf(P.nv)
        oi == SelectSeq(ColSeq(P), LAMBDA j : P.obj[j] # Z)        \* `if coeff`
        objpart == [k \in 1..Len(oi) |-> EObjTerm(SgnOf(P, P.obj[oi[k]]), AbsOf(P, P.obj[oi[k]]), oi[k])]
        qpart == IF P.cls = "LinProg" THEN <<>>
                 ELSE [k \in 1..Len(P.cones) |-> EQRow(k, P.cones[k].h, P.cones[k].mem)]
        rowpart(i) == <<ERowStart(i)>>
                      \o [k \in 1..Len(P.ord[i]) |->
                            ETerm(SgnOf(P, P.A[i][P.ord[i][k]]), AbsOf(P, P.A[i][P.ord[i][k]]), P.ord[i][k])]
                      \o <<ERel(P.sense[i]), ERhs(P.rhs[i])>>
        rows == FlattenSeq([i \in 1..P.m |-> rowpart(i)])
        bpart == [j \in 1..P.n |-> EBound(P.lb[j], j, P.ub[j])]
        gi == SelectSeq(ColSeq(P), LAMBDA j : P.vt[j] = "I")
        bi == SelectSeq(ColSeq(P), LAMBDA j : P.vt[j] = "B")
        gpart == IF gi = <<>> THEN <<>>
                 ELSE <<ESection("general")>> \o [k \in 1..Len(gi) |-> EGeneral(gi[k])]
        binpart == IF bi = <<>> THEN <<>>
                   ELSE <<ESection("binary")>> \o [k \in 1..Len(bi) |-> EBinary(bi[k])]
    IN  <<ESection("min")>> \o objpart \o <<ESection("st")>> \o qpart \o rows
        \o <<ESection("bounds")>> \o bpart \o gpart \o binpart \o <<EEnd>>

(* showlc (lp.py:5364), LinProg.show (5377), showqc/SOCProg.show (socp.py:334/360), GCProg.show *)
RenderShow(P) ==
    LET Z == ZeroOf(P.nv)
        dash == ESConst(0, "-")
        num(f) == [j \in 1..P.n |-> ESCell(j, f[j], "")]
        row(kind, i, cells, sense, cst) == <<ESRow(kind, i)>> \o cells \o <<ESSense(sense), cst>>
        objrow == row("Obj", 0, num(P.obj), "-", dash)
        lc(i) == row("LC", i, num(P.A[i]), IF P.sense[i] = "eq" THEN "==" ELSE "<=", ESConst(P.rhs[i], ""))
        qc(k) == row("QC", k, [j \in 1..P.n |-> ESCell(j, ConeCell(P, k, j), "")], "<=", ESConst(Z, ""))
        tail == row("UB", 0, num(P.ub), "-", dash) \o row("LB", 0, num(P.lb), "-", dash)
                \o row("Type", 0, [j \in 1..P.n |-> ESCell(j, 0, P.vt[j])], "-", dash)
        full == P.cls # "LinProg" \/ LinShowFull
    IN  <<ESHead(P.n)>>
        \o (IF full THEN objrow ELSE <<>>)
        \o FlattenSeq([i \in 1..P.m |-> lc(i)])
        \o (IF P.cls = "LinProg" THEN <<>> ELSE FlattenSeq([k \in 1..Len(P.cones) |-> qc(k)]))
        \o (IF full THEN tail ELSE <<>>)
        \o <<ESEnd>>

(* streams that no longer denote P: each must be rejected by the ideal *)
LpMutants(P) ==
    LET evs == RenderLp(P)
        Z == ZeroOf(P.nv)
        K == 1..Len(evs)
    IN  {RemoveAt(evs, k) : k \in {k \in K : evs[k].k = "Bound" /\ P.vt[evs[k].c] # "B"
                                               /\ (evs[k].a # Z \/ evs[k].b # P.nv)}}
        \cup {[evs EXCEPT ![k].a = 0 - @] : k \in {k \in K : evs[k].k \in {"Term", "ObjTerm"} /\ evs[k].b # Z}}
        \cup {RemoveAt(evs, k) : k \in {k \in K : evs[k].k \in {"Term", "ObjTerm"} /\ evs[k].b # Z}}
        \cup {RemoveAt(evs, k) : k \in {k \in K : evs[k].k \in {"General", "Binary", "QRow"}}}
        \cup {[evs EXCEPT ![k].s = IF @ = "le" THEN "eq" ELSE "le"] : k \in {k \in K : evs[k].k = "Rel"}}

ShowMutants(P) ==
    LET evs == RenderShow(P)
        K == 1..Len(evs)
    IN  {[evs EXCEPT ![k].b = IF @ = P.nv THEN 1 ELSE @ + 1] : k \in {k \in K : evs[k].k = "SCell" /\ evs[k].s = ""}}
        \cup {[evs EXCEPT ![k].s = IF @ = "C" THEN "I" ELSE "C"] : k \in {k \in K : evs[k].k = "SCell" /\ evs[k].s # ""}}
        \cup {[evs EXCEPT ![k].s = IF @ = "<=" THEN "==" ELSE "<="] : k \in {k \in K : evs[k].k = "SSense"}}

-----------------------------------------------------------------------------
(* Part 3: generator *)

GIdle == [phase |-> "idle"]
TIdle == [phase |-> "idle"]

GInit == /\ g = [phase |-> "build", vt |-> <<>>, lb |-> <<>>, ub |-> <<>>, rows |-> <<>>,
                 cones |-> <<>>, obj |-> <<>>, cls |-> "", mode |-> "", dir |-> ""]
         /\ t = TIdle

GZ == ZeroOf(NV)

AddCol ==
    /\ g.phase = "build" /\ Len(g.vt) < Cols
    /\ \E v \in VtSet, l \in LbSet, u \in UbSet :
          g' = [g EXCEPT !.vt = Append(@, v), !.lb = Append(@, l), !.ub = Append(@, u)]
    /\ UNCHANGED t

AddRow ==
    /\ g.phase = "build" /\ Len(g.vt) = Cols /\ g.cones = <<>> /\ Len(g.rows) < MaxRows
    /\ \E a \in [1..Cols -> CoefSet], s \in {"le", "eq"}, b \in RhsSet, ez \in EzSet :
          /\ (ez # 0) => (\E j \in 1..Cols : a[j] = GZ)
          /\ g' = [g EXCEPT !.rows = Append(@, [a |-> a, s |-> s, b |-> b, ez |-> ez])]
    /\ UNCHANGED t

AddCone ==
    /\ WithCone /\ g.phase = "build" /\ Len(g.vt) = Cols /\ g.cones = <<>>
    /\ \E h \in 1..Cols : \E M \in (SUBSET ((1..Cols) \ {h})) \ {{}} :
          g' = [g EXCEPT !.cones = <<[h |-> h, mem |-> SetToSortSeq(M, <)]>>]
    /\ UNCHANGED t

Finish ==
    /\ g.phase = "build" /\ Len(g.vt) = Cols
    /\ \E o \in [1..Cols -> ObjSet], c \in ClsSet, md \in ModeSet, d \in DirSet :
          /\ (g.cones # <<>>) => (c # "LinProg")
          /\ (md = "dual") => (\A j \in 1..Cols : g.vt[j] = "C")
          /\ (md # "primal") => (\A i \in 1..Len(g.rows) : g.rows[i].ez = 0)
          /\ (md = "robust") => (c = "GCProg" /\ Len(g.rows) >= 1 /\ g.cones = <<>>)
          /\ g' = [g EXCEPT !.phase = "done", !.obj = o, !.cls = c, !.mode = md, !.dir = d]
    /\ UNCHANGED t

GNext == AddCol \/ AddRow \/ AddCone \/ Finish
GSpec == GInit /\ [][GNext]_vars

(* the generated program as the writers see it *)
GP == [cls |-> g.cls, nv |-> NV, one |-> One, n |-> Cols, m |-> Len(g.rows),
       A |-> [i \in 1..Len(g.rows) |-> g.rows[i].a],
       ord |-> [i \in 1..Len(g.rows) |->
                  SelectSeq([j \in 1..Cols |-> j], LAMBDA j : g.rows[i].a[j] # GZ \/ g.rows[i].ez # 0)],
       sense |-> [i \in 1..Len(g.rows) |-> g.rows[i].s],
       rhs |-> [i \in 1..Len(g.rows) |-> g.rows[i].b],
       lb |-> g.lb, ub |-> g.ub, vt |-> g.vt, obj |-> g.obj, cones |-> g.cones]

Done == g.phase = "done"

GenTypeOK == /\ g.phase \in {"build", "done", "idle"}
             /\ g.phase # "idle" => (Len(g.vt) <= Cols /\ Len(g.rows) <= MaxRows /\ Len(g.cones) <= 1)

KnownLinShow(P) == P.cls = "LinProg" /\ ~LinShowFull   \* named trigger: LinProg.show() = showlc() only

(* the ideal, on the transcription *)
LpTextDescribes == Done => AcceptedLp(RenderLp(GP), GP)
ShowDescribes == Done => (AcceptedShow(RenderShow(GP), GP) \/ KnownLinShow(GP))
ShowDescribesStrict == Done => AcceptedShow(RenderShow(GP), GP)
LpMutantsRejected == Done => \A mu \in LpMutants(GP) : ~AcceptedLp(mu, GP)
ShowMutantsRejected == Done => \A mu \in ShowMutants(GP) : ~AcceptedShow(mu, GP)

GExport == [n |-> Cols, vt |-> g.vt, lb |-> g.lb, ub |-> g.ub, rows |-> g.rows, cones |-> g.cones,
            obj |-> g.obj, cls |-> g.cls, mode |-> g.mode, dir |-> g.dir,
            nlp |-> Len(RenderLp(GP)), nshow |-> Len(RenderShow(GP))]
Export == Done => PrintT(ToJson(GExport))

-----------------------------------------------------------------------------
(* Part 4: trace validator (batch: one initial state per (trace, stream)) *)

TInit == /\ g = GIdle
         /\ \E i \in 1..Len(Traces), kd \in {"lp", "show"} :
               t = [phase |-> "new", tid |-> i, kind |-> kd, pos |-> 1,
                    st |-> IF kd = "lp" THEN LpInit(Traces[i].P) ELSE ShowInit(Traces[i].P)]

TP == Traces[t.tid].P
TEvs == IF t.kind = "lp" THEN Traces[t.tid].lp ELSE Traces[t.tid].show
TRender == IF t.kind = "lp" THEN RenderLp(TP) ELSE RenderShow(TP)
TWhy == IF t.kind = "lp" THEN LpWhy(t.st, TEvs[t.pos], TP) ELSE ShowWhy(t.st, TEvs[t.pos], TP)
TUpd == IF t.kind = "lp" THEN LpUpd(t.st, TEvs[t.pos], TP) ELSE ShowUpd(t.st, TEvs[t.pos], TP)
Msg(v, why) == ToJson([v |-> v, tid |-> t.tid, kind |-> t.kind, pos |-> t.pos, why |-> why])

TStart ==      \* transcription conformance: the real stream equals what the transcribed writer emits
    /\ t.phase = "new"
    /\ PrintT(Msg(IF TEvs = TRender THEN "CONFORM" ELSE "DRIFT", ""))
    /\ t' = [t EXCEPT !.phase = "run"]
    /\ UNCHANGED g

Can(K) ==       \* the next event is of a kind in K and the ideal accepts it here
    /\ t.phase = "run" /\ t.pos <= Len(TEvs)
    /\ TEvs[t.pos].k \in K
    /\ TWhy = ""
Advance == [t EXCEPT !.pos = @ + 1, !.st = TUpd]

(* one action per event kind (so that TLC's coverage shows which kinds were exercised) *)
TSection == Can({"Section"}) /\ t' = Advance /\ UNCHANGED g
TObjTerm == Can({"ObjTerm"}) /\ t' = Advance /\ UNCHANGED g
TRowStart == Can({"RowStart"}) /\ t' = Advance /\ UNCHANGED g
TTerm == Can({"Term"}) /\ t' = Advance /\ UNCHANGED g
TRel == Can({"Rel"}) /\ t' = Advance /\ UNCHANGED g
TRhs == Can({"Rhs"}) /\ t' = Advance /\ UNCHANGED g
TQRow == Can({"QRow"}) /\ t' = Advance /\ UNCHANGED g
TBound == Can({"Bound"}) /\ t' = Advance /\ UNCHANGED g
TBoundOther == Can({"Free", "Lower", "Upper"}) /\ t' = Advance /\ UNCHANGED g
TGeneral == Can({"General"}) /\ t' = Advance /\ UNCHANGED g
TBinary == Can({"Binary"}) /\ t' = Advance /\ UNCHANGED g
TEnd == Can({"End"}) /\ t' = Advance /\ UNCHANGED g
TSHead == Can({"SHead"}) /\ t' = Advance /\ UNCHANGED g
TSRow == Can({"SRow"}) /\ t' = Advance /\ UNCHANGED g
TSCell == Can({"SCell"}) /\ t' = Advance /\ UNCHANGED g
TSSense == Can({"SSense"}) /\ t' = Advance /\ UNCHANGED g
TSConst == Can({"SConst"}) /\ t' = Advance /\ UNCHANGED g
TSEnd == Can({"SEnd"}) /\ t' = Advance /\ UNCHANGED g

TReject ==
    /\ t.phase = "run" /\ t.pos <= Len(TEvs)
    /\ TWhy # ""
    /\ PrintT(Msg("REJECT", TWhy))
    /\ t' = [t EXCEPT !.phase = "dead"]
    /\ UNCHANGED g

TAccept ==
    /\ t.phase = "run" /\ t.pos = Len(TEvs) + 1
    /\ IF t.st.sec = "end"
       THEN PrintT(Msg("ACCEPT", "")) /\ t' = [t EXCEPT !.phase = "done"]
       ELSE PrintT(Msg("REJECT", "truncated")) /\ t' = [t EXCEPT !.phase = "dead"]
    /\ UNCHANGED g

TNext == \/ TStart \/ TSection \/ TObjTerm \/ TRowStart \/ TTerm \/ TRel \/ TRhs \/ TQRow \/ TBound
         \/ TBoundOther \/ TGeneral \/ TBinary \/ TEnd
         \/ TSHead \/ TSRow \/ TSCell \/ TSSense \/ TSConst \/ TSEnd
         \/ TReject \/ TAccept
TSpec == TInit /\ [][TNext]_vars

TTypeOK == t.phase \in {"idle", "new", "run", "dead", "done"}
(* a consumed prefix never leaves the acceptor in a state with an open row at a section change *)
TDeterministic == t.phase = "run" => t.pos <= Len(TEvs) + 1
=============================================================================
