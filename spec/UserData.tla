------------------------------ MODULE UserData ------------------------------
(***************************************************************************)
(* C19: "formulation ... neither consumes global random state nor modifies *)
(* numeric arrays supplied by the user", "for all user-supplied arrays     *)
(* (any dtype numpy accepts, views, read-only arrays)", and "building the  *)
(* same model twice (in one process or in two) yields numerically          *)
(* identical standard forms".                                              *)
(*                                                                         *)
(* The table of WHERE a user array enters a model (role) x WHAT kind of    *)
(* array it is (dtype, memory layout, writeable flag) x front end.  The    *)
(* state machine of one case: Supply -> Build -> Formulate (primal, dual)  *)
(* -> Solve -> Formulate again; the ideal at every step: the array's bytes *)
(* are what the user supplied (ghost `supplied`), no step raises because   *)
(* of the array's kind, and the standard form equals the one obtained from *)
(* a plain float64 C-contiguous writable copy of the same numbers.         *)
(* Implementation shaped: rsome keeps REFERENCES to what it is given       *)
(* (np.array(x, copy=False)-style conversions, csr_matrix(A) of an         *)
(* operand, in-place resize in subroutines.add_linear, in-place edits of   *)
(* bound vectors in the dual construction); `held` records whether the     *)
(* role keeps a reference (then later steps can still reach the array).    *)
(***************************************************************************)
EXTENDS Integers, Sequences, FiniteSets, TLC, Json

CONSTANTS Roles, Dtypes, Layouts, Fronts

\* roles that exist on a front end
RoleOn(r, f) == CASE r \in {"set_rhs", "set_matrix", "rand_coef", "quad_set"} -> f \in {"ro", "dro"}
                  [] r \in {"expt_rhs", "prob_rhs"} -> f = "dro"
                  [] OTHER -> TRUE
\* layouts that need two dimensions
TwoDim(l) == l \in {"fortran", "transposed"}
MatrixRole(r) == r \in {"matmul_left", "matmul_right", "set_matrix", "rand_coef", "quad_matrix", "quad_set"}   \* the last two: a positive semidefinite matrix handed to quad()
\* numpy refuses to create these: not cases
Exists(d, l, w) == ~(l = "broadcast" /\ w)          \* np.broadcast_to views are read-only

Cases == {c \in [role : Roles, dtype : Dtypes, layout : Layouts, writeable : BOOLEAN, front : Fronts] :
             /\ RoleOn(c.role, c.front) /\ (TwoDim(c.layout) => MatrixRole(c.role)) /\ Exists(c.dtype, c.layout, c.writeable)}

VARIABLES case, step, supplied, current, raised
vars == <<case, step, supplied, current, raised>>
Steps == <<"supplied", "built", "primal", "dual", "solved", "primal2">>
Init == case \in Cases /\ step = 1 /\ supplied = "bytes0" /\ current = "bytes0" /\ raised = FALSE
Advance == step < Len(Steps) /\ step' = step + 1 /\ UNCHANGED <<case, supplied, current, raised>>
Next == Advance
Spec == Init /\ [][Next]_vars

\* C19 (ideal): the user's array is never written, whatever the step; its kind never makes a step raise
ArrayUntouched == current = supplied
KindAccepted == ~raised
EveryRoleSomewhere == \A r \in Roles : \E c \in Cases : c.role = r
Export == (step = 1) => PrintT(ToJson(case))
=============================================================================
