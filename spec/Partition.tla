----------------------------- MODULE Partition -----------------------------
(***************************************************************************)
(* Event-wise and affine adaptation bookkeeping of rsome.dro decision      *)
(* variables, transcribed from                                             *)
(*   lp.py  DecVar.evtadapt / DecVar.affadapt / DecVarSub.affadapt /       *)
(*          DecVar.get, subroutines.event_dict / comb_set,                 *)
(*   dro.py Model.rule_var (column of scenario s for variable v).          *)
(* The state is implementation shaped: event_adapt is an ORDERED list of   *)
(* ORDERED lists mutated in place; rand_adapt matrices live on a heap and  *)
(* are shared by reference between a variable and the slices made of it.   *)
(* Ghost variables (declared, declMask) carry what the user declared.      *)
(*                                                                         *)
(* Properties: C13 (IsPartition, SharedIffSameEvent, CombIsMeet,           *)
(* MaskExact, IllegalRaises) and the label clause of C12 (LabelsOwnEvent). *)
(***************************************************************************)
EXTENDS Naturals, Integers, Sequences, FiniteSets, TLC, SequencesExt, FiniteSetsExt, Json

CONSTANTS NS,        \* number of scenarios; positions 0..NS-1
          Sizes,     \* Sizes[v]: number of entries of decision variable v
          VTypes,    \* VTypes[v] \in {"C","I"}
          NR,        \* number of random components 1..NR
          MaxSteps,  \* bound on the length of a history
          MaxSlices, \* bound on pre-made slices
          Zhat,      \* Zhat[s+1]: pinned value of the random variable in scenario s (distinct ints)
          GetFixed,  \* TRUE: DecVar.get labels in scenario order (code after fix of defect 1)
          SliceFixed,\* TRUE: DecVarSub.affadapt re-reads the parent's matrix (after fix of defect 13)
          RedeclFixed \* TRUE: evtadapt refuses any call once every scenario was declared (defect 14)

Scen   == 0..(NS-1)
Var    == 1..Len(Sizes)
Comp   == 1..NR

VARIABLES ea,        \* ea[v]: Seq(Seq(Scen))  = DecVar.event_adapt
          declared,  \* ghost: scenarios explicitly passed to a successful evtadapt of v
          heap,      \* Seq of matrices; a matrix is [1..Sizes[v]] -> SUBSET Comp
          pref,      \* pref[v]: 0 (None) or index into heap  = DecVar.rand_adapt
          slices,    \* Seq of [v, idx, ref]  = DecVarSub objects kept by the user
          declMask,  \* ghost: declMask[v][i] = components declared for entry i
          broken,    \* broken[v]: an evtadapt on v raised after partially mutating event_adapt
          full,      \* full[v]: the "remaining" block was popped: every scenario is declared
          lastIllegal, \* ghost: the last action was an illegal declaration (must have out = "err")
          hist,      \* the API history, for export
          out        \* outcome of the last action: "ok" | "err"

vars == <<ea, declared, heap, pref, slices, declMask, broken, full, lastIllegal, hist, out>>

-----------------------------------------------------------------------------
(* helpers on ordered partitions *)

Flat(e) == FlattenSeq(e)                       \* dict insertion order of event_dict(e)
Rng(s) == {s[i] : i \in 1..Len(s)}
BlockOf(e, s) == CHOOSE k \in 1..Len(e) : s \in Rng(e[k])      \* 1-based; event_dict(e)[s] + 1
HasBlock(e, s) == \E k \in 1..Len(e) : s \in Rng(e[k])

IsPartitionOf(e) ==
    /\ \A k \in 1..Len(e) : Len(e[k]) > 0
    /\ \A k \in 1..Len(e) : Cardinality(Rng(e[k])) = Len(e[k])
    /\ \A k, l \in 1..Len(e) : k # l => Rng(e[k]) \cap Rng(e[l]) = {}
    /\ UNION {Rng(e[k]) : k \in 1..Len(e)} = Scen

SameEvent(e, s, t) == BlockOf(e, s) = BlockOf(e, t)

(* evtadapt (lp.py:3493): remove each event from event_adapt[0] in turn; KeyError at the first
   one that is not there (earlier removals stay: partial mutation); pop an emptied first block;
   append the new block in the order given. *)
RECURSIVE RemoveAll(_, _)
RemoveAll(f, E) ==
    IF E = <<>> THEN [ok |-> TRUE, f |-> f]
    ELSE IF Head(E) \in Rng(f)
         THEN RemoveAll(SelectSeq(f, LAMBDA x : x # Head(E)), Tail(E))
         ELSE [ok |-> FALSE, f |-> f]

EvtAdaptResult(e, E) ==
    LET r == RemoveAll(e[1], E) IN
    IF r.ok
    THEN [ok |-> TRUE,  e |-> Append(IF r.f = <<>> THEN Tail(e) ELSE <<r.f>> \o Tail(e), E)]
    ELSE [ok |-> FALSE, e |-> <<r.f>> \o Tail(e)]

(* comb_set (subroutines.py:239): scan scenarios 0..NS-1, group by the pair of block indices,
   groups in order of first appearance. *)
RECURSIVE CombScan(_, _, _, _, _)
CombScan(e1, e2, s, keys, outp) ==
    IF s = NS THEN outp
    ELSE LET key == <<BlockOf(e1, s), BlockOf(e2, s)>> IN
         IF \E k \in 1..Len(keys) : keys[k] = key
         THEN LET k == CHOOSE k \in 1..Len(keys) : keys[k] = key IN
              CombScan(e1, e2, s + 1, keys, [outp EXCEPT ![k] = Append(@, s)])
         ELSE CombScan(e1, e2, s + 1, Append(keys, key), Append(outp, <<s>>))
CombSet(e1, e2) == CombScan(e1, e2, 0, <<>>, <<>>)

(* DecVar.get (lp.py:3595): outputs[k] is the value of event k; the Series is
   [outputs[edict[key]] for key in edict] labelled with the scenarios in order. *)
LabelIter(e) == IF GetFixed THEN [k \in 1..NS |-> k - 1] ELSE Flat(e)
LabelsBlock(e) == [k \in 1..NS |-> BlockOf(e, LabelIter(e)[k])]   \* block reported under label k-1

(* rule_var (dro.py:146): ro_first and the column of (v, s, i) *)
RECURSIVE SumTo(_, _)
SumTo(f, n) == IF n = 0 THEN 0 ELSE f[n] + SumTo(f, n - 1)
RoFirst(v) == 1 + SumTo([w \in Var |-> Sizes[w] * Len(ea[w])], v - 1)
Col(v, s, i) == RoFirst(v) + Sizes[v] * (BlockOf(ea[v], s) - 1) + (i - 1)
TotalCols == 1 + SumTo([w \in Var |-> Sizes[w] * Len(ea[w])], Len(Sizes))

-----------------------------------------------------------------------------
EmptyMat(v) == [i \in 1..Sizes[v] |-> {}]
MaskOf(v) == IF pref[v] = 0 THEN EmptyMat(v) ELSE heap[pref[v]]

(* rule_var, second loop nest (dro.py:186-212): the solver columns of the SLOPES.  num_v = number of ones of
   rand_adapt of v; the block of v for scenario s starts at SlopeFirst(v) + num_v * event_dict(ea[v])[s]
   (edict is recomputed for every variable); inside the block the ones are taken in row-major order
   (np.where(depend_mat.flatten())).  Columns are relative to the first slope column. *)
MaskPairs(v) == {p \in (1..Sizes[v]) \X Comp : p[2] \in MaskOf(v)[p[1]]}
NumDep(v) == Cardinality(MaskPairs(v))
RowMajorBefore(p, q) == p[1] < q[1] \/ (p[1] = q[1] /\ p[2] < q[2])
SlopeRank(v, p) == Cardinality({q \in MaskPairs(v) : RowMajorBefore(q, p)})
SlopeFirst(v) == SumTo([w \in Var |-> NumDep(w) * Len(ea[w])], v - 1)
SlopeCol(v, s, p) == SlopeFirst(v) + NumDep(v) * (BlockOf(ea[v], s) - 1) + SlopeRank(v, p)
SlopeSeq(v, s) == [r \in 1..NumDep(v) |->
                     LET p == CHOOSE q \in MaskPairs(v) : SlopeRank(v, q) = r - 1 IN <<p[1], p[2], SlopeCol(v, s, p)>>]

Init ==
    /\ ea = [v \in Var |-> << [k \in 1..NS |-> k - 1] >>]
    /\ declared = [v \in Var |-> {}]
    /\ heap = <<>>
    /\ pref = [v \in Var |-> 0]
    /\ slices = <<>>
    /\ declMask = [v \in Var |-> EmptyMat(v)]
    /\ broken = [v \in Var |-> FALSE]
    /\ full = [v \in Var |-> FALSE]
    /\ lastIllegal = FALSE
    /\ hist = <<>>
    /\ out = "ok"

(* arguments enumerated for evtadapt: every non-empty subset in ascending order, two-element
   subsets also in descending order, a duplicate and an unknown label *)
SortedSeq(S) == SetToSortSeq(S, <)
EvtArgs == {SortedSeq(S) : S \in (SUBSET Scen) \ {{}}}
           \cup {Reverse(SortedSeq(S)) : S \in {T \in SUBSET Scen : Cardinality(T) = 2}}
           \cup {<<0, 0>>, <<NS>>}

IllegalEvt(v, E) == \/ Rng(E) \cap declared[v] # {}
                    \/ ~(Rng(E) \subseteq Scen)
                    \/ Cardinality(Rng(E)) # Len(E)

AdaptEvents(v, E) ==
    /\ ~broken[v]
    /\ lastIllegal' = IllegalEvt(v, E)
    /\ IF RedeclFixed /\ full[v]
       THEN /\ out' = "err" /\ UNCHANGED <<ea, broken, declared, full>>
       ELSE LET r == EvtAdaptResult(ea[v], E) IN
            /\ ea' = [ea EXCEPT ![v] = r.e]
            /\ out' = IF r.ok THEN "ok" ELSE "err"
            /\ broken' = [broken EXCEPT ![v] = ~r.ok /\ r.e # ea[v]]
            /\ declared' = [declared EXCEPT ![v] = IF r.ok THEN @ \cup Rng(E) ELSE @]
            /\ full' = [full EXCEPT ![v] = @ \/ (r.ok /\ RemoveAll(ea[v][1], E).f = <<>>)]
    /\ hist' = Append(hist, [act |-> "adapt_events", v |-> v, E |-> E])
    /\ UNCHANGED <<heap, pref, slices, declMask>>

(* DecVar.__getitem__ -> DecVarSub.__init__: captures the parent's CURRENT rand_adapt reference *)
IdxSets(v) == {S \in SUBSET (1..Sizes[v]) : S # {}}
MkSlice(v, idx) ==
    /\ Len(slices) < MaxSlices
    /\ slices' = Append(slices, [v |-> v, idx |-> idx, ref |-> pref[v]])
    /\ out' = "ok" /\ lastIllegal' = FALSE
    /\ hist' = Append(hist, [act |-> "mk_slice", v |-> v, idx |-> SortedSeq(idx)])
    /\ UNCHANGED <<ea, declared, heap, pref, declMask, broken, full>>

(* DecVarSub.affadapt (lp.py:3683) on a slice object with captured reference ref:
   integer -> ValueError; allocate a zero matrix when ref is None; redefinition -> RuntimeError;
   set the ones; parent.rand_adapt := this matrix. *)
AffAdaptCore(v, idx, ref0, comps, k) ==
    LET ref == IF SliceFixed THEN pref[v] ELSE ref0
        newheap == IF ref = 0 THEN Append(heap, EmptyMat(v)) ELSE heap
        r == IF ref = 0 THEN Len(heap) + 1 ELSE ref
        clash == \E i \in idx : newheap[r][i] \cap comps # {}
        setones(m) == [i \in 1..Sizes[v] |-> IF i \in idx THEN m[i] \cup comps ELSE m[i]]
    IN
    /\ lastIllegal' = (VTypes[v] # "C" \/ \E i \in idx : declMask[v][i] \cap comps # {})
    /\ out' = IF VTypes[v] # "C" \/ clash THEN "err" ELSE "ok"
    /\ heap' = IF VTypes[v] # "C" THEN heap
               ELSE IF clash THEN newheap
               ELSE [newheap EXCEPT ![r] = setones(@)]
    /\ slices' = IF VTypes[v] # "C" \/ k = 0 THEN slices ELSE [slices EXCEPT ![k].ref = r]
    /\ pref' = IF VTypes[v] # "C" \/ clash THEN pref ELSE [pref EXCEPT ![v] = r]
    /\ declMask' = IF VTypes[v] # "C" \/ clash THEN declMask
                   ELSE [declMask EXCEPT ![v] = setones(@)]

CompSets == {S \in SUBSET Comp : S # {}}

AdaptAffineVar(v, comps) ==        \* x.adapt(z[...])  ==  x[:].affadapt(...)
    /\ AffAdaptCore(v, 1..Sizes[v], pref[v], comps, 0)
    /\ hist' = Append(hist, [act |-> "adapt_affine", v |-> v, idx |-> SortedSeq(1..Sizes[v]),
                             comps |-> SortedSeq(comps), slice |-> 0])
    /\ UNCHANGED <<ea, declared, broken, full>>

AdaptAffineFresh(v, idx, comps) == \* x[idx].adapt(z[...]) on a slice made on the spot
    /\ idx # 1..Sizes[v]
    /\ AffAdaptCore(v, idx, pref[v], comps, 0)
    /\ hist' = Append(hist, [act |-> "adapt_affine", v |-> v, idx |-> SortedSeq(idx),
                             comps |-> SortedSeq(comps), slice |-> 0])
    /\ UNCHANGED <<ea, declared, broken, full>>

AdaptAffineSlice(k, comps) ==      \* a slice object made earlier
    /\ k \in 1..Len(slices)
    /\ AffAdaptCore(slices[k].v, slices[k].idx, slices[k].ref, comps, k)
    /\ hist' = Append(hist, [act |-> "adapt_affine", v |-> slices[k].v, idx |-> SortedSeq(slices[k].idx),
                             comps |-> SortedSeq(comps), slice |-> k])
    /\ UNCHANGED <<ea, declared, broken, full>>

More == Len(hist) < MaxSteps
DoAdaptEvents      == More /\ \E v \in Var, E \in EvtArgs : AdaptEvents(v, E)
DoMkSlice          == More /\ \E v \in Var : \E idx \in IdxSets(v) : MkSlice(v, idx)
DoAdaptAffineVar   == More /\ \E v \in Var, c \in CompSets : AdaptAffineVar(v, c)
DoAdaptAffineFresh == More /\ \E v \in Var : \E idx \in IdxSets(v) : \E c \in CompSets : AdaptAffineFresh(v, idx, c)
DoAdaptAffineSlice == More /\ \E k \in 1..MaxSlices, c \in CompSets : AdaptAffineSlice(k, c)

Next == DoAdaptEvents \/ DoMkSlice \/ DoAdaptAffineVar \/ DoAdaptAffineFresh \/ DoAdaptAffineSlice

Spec == Init /\ [][Next]_vars

-----------------------------------------------------------------------------
(* Properties *)

TypeOK == /\ \A v \in Var : Len(ea[v]) >= 1
          /\ out \in {"ok", "err"}

\* C13: the event list is always a partition of the scenarios (unless an evtadapt raised midway)
IsPartition == \A v \in Var : ~broken[v] => IsPartitionOf(ea[v])

\* C13: two scenarios share the solver columns of v exactly when they are in the same event
SharedIffSameEvent ==
    \A v \in Var : ~broken[v] =>
        \A s, t \in Scen : \A i \in 1..Sizes[v] :
            (Col(v, s, i) = Col(v, t, i)) <=> SameEvent(ea[v], s, t)

\* C13: columns of distinct (variable, event, entry) never collide and stay in range
ColsInjective ==
    (\A v \in Var : ~broken[v]) =>
        \A v, w \in Var : \A s, t \in Scen : \A i \in 1..Sizes[v], j \in 1..Sizes[w] :
            /\ Col(v, s, i) < TotalCols
            /\ (Col(v, s, i) = Col(w, t, j)) => (v = w /\ i = j)

\* C13: one affine rule per declared event: two scenarios share the slope column of (v, entry, component) exactly
\* when they are in the same event of v ...
SlopeSharedIffSameEvent ==
    \A v \in Var : ~broken[v] =>
        \A s, t \in Scen : \A p \in MaskPairs(v) :
            (SlopeCol(v, s, p) = SlopeCol(v, t, p)) <=> SameEvent(ea[v], s, t)
\* ... and slope columns of distinct (variable, event, entry, component) never collide
SlopeColsInjective ==
    (\A v \in Var : ~broken[v]) =>
        \A v, w \in Var : \A s, t \in Scen : \A p \in MaskPairs(v), q \in MaskPairs(w) :
            (SlopeCol(v, s, p) = SlopeCol(w, t, q)) => (v = w /\ p = q)

\* C13: comb_set returns the coarsest common refinement
CombIsMeet ==
    \A v, w \in Var : (~broken[v] /\ ~broken[w]) =>
        LET c == CombSet(ea[v], ea[w]) IN
        /\ IsPartitionOf(c)
        /\ \A s, t \in Scen : SameEvent(c, s, t) <=> (SameEvent(ea[v], s, t) /\ SameEvent(ea[w], s, t))

\* C12: the value reported under the label of scenario s is the value of s's own event
LabelsOwnEvent ==
    \A v \in Var : (~broken[v] /\ Len(ea[v]) > 1) =>
        \A k \in 1..NS : LabelsBlock(ea[v])[k] = BlockOf(ea[v], k - 1)

\* C13: the dependency mask the formulation will use is exactly what was declared
MaskExact == \A v \in Var : MaskOf(v) = declMask[v]

\* C13: illegal declarations (re-declared / unknown / duplicated scenario, re-declared dependency,
\* affine adaptation of an integer decision) raise
IllegalRaises == lastIllegal => out = "err"
\* ... and legal ones do not
LegalAccepted == (~lastIllegal) => out = "ok"

-----------------------------------------------------------------------------
(* Expected observables, exported for the replay (spec -> code) *)

MaxOf(S) == CHOOSE x \in S : \A y \in S : y <= x
EventMax(v, s) == MaxOf({Zhat[t + 1] : t \in Rng(ea[v][BlockOf(ea[v], s)])})
\* x_v[i] >= i * z in every scenario, z pinned to Zhat[s] in scenario s, minimise sup E sum x with
\* p_s = 1/NS:  NS * optimum = sum_s sum_v sum_i i * EventMax(v, s)
SumOver(S, f(_)) == MapThenSumSet(f, S)
Tri(n) == (n * (n + 1)) \div 2
ObjTimesNS == SumOver(Scen, LAMBDA s : SumOver(Var, LAMBDA v : Tri(Sizes[v]) * EventMax(v, s)))

AnyBroken == \E v \in Var : broken[v]

ExportRec ==
    [hist |-> hist, out |-> out,
     ea |-> [v \in Var |-> ea[v]],
     broken |-> [v \in Var |-> broken[v]],
     illegal |-> lastIllegal,
     idealOK |-> [labels |-> LabelsOwnEvent, mask |-> MaskExact, illegal |-> IllegalRaises],
     mask |-> [v \in Var |-> [i \in 1..Sizes[v] |-> SortedSeq(MaskOf(v)[i])]],
     decl |-> [v \in Var |-> [i \in 1..Sizes[v] |-> SortedSeq(declMask[v][i])]],
     comb |-> IF AnyBroken \/ Len(Sizes) < 2 THEN <<>> ELSE CombSet(ea[1], ea[2]),
     evmax |-> IF AnyBroken THEN <<>> ELSE [v \in Var |-> [k \in 1..NS |-> EventMax(v, k - 1)]],
     cols |-> IF AnyBroken THEN <<>> ELSE [v \in Var |-> [k \in 1..NS |-> Col(v, k - 1, 1)]],
     colsAll |-> IF AnyBroken THEN <<>> ELSE [v \in Var |-> [k \in 1..NS |-> [i \in 1..Sizes[v] |-> Col(v, k - 1, i)]]],
     scols |-> IF AnyBroken THEN <<>> ELSE [v \in Var |-> [k \in 1..NS |-> SlopeSeq(v, k - 1)]],
     total |-> IF AnyBroken THEN 0 ELSE TotalCols,
     objNS |-> IF AnyBroken THEN 0 ELSE ObjTimesNS]

Export == PrintT(ToJson(ExportRec))
ExportLeaves == (Len(hist) = MaxSteps) => PrintT(ToJson(ExportRec))
=============================================================================
