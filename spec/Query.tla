------------------------------- MODULE Query -------------------------------
(***************************************************************************)
(* What every solution query of rsome DENOTES (property C12), over an      *)
(* abstract solved state.  Generator + oracle: TLC enumerates scenes       *)
(* (declarations + pinned solution) as initial states, or - for decision   *)
(* rules (ro) and event-wise decisions (dro) - as the states of a small    *)
(* machine  Declare* -> (solve) -> Query*  whose history of adapt() calls  *)
(* is the state.  For every query of a scene the spec defines              *)
(*   Ideal  : the value the user is promised (from the ghost assignment    *)
(*            V of values to declared entries / declared dependencies),    *)
(*   Code(F): the value the implementation computes, transcribed from      *)
(*            lp.py (Vars.get, VarSub.to_affine, Affine.__call__,          *)
(*            Convex.__mul__/__neg__/__add__/__call__, PerspConvex,        *)
(*            RoAffine.__call__, DecRule.adapt/to_affine/get, DecVar.get,  *)
(*            DecAffine.__call__, DecRoAffine.__call__), where F is the    *)
(*            set of defect flags that are REPAIRED in the transcription.  *)
(* Invariant CodeIsIdeal: Code(Fixed) = Ideal for every query (checked by  *)
(* TLC in every run with Fixed = AllFlags: the transcription of the        *)
(* repaired code means what the user wrote; index maps, column offsets,    *)
(* NaN masks, labels, and the sign/multiplier calculus of convex atoms).   *)
(* For every flag f with Code(AllFlags \ {f}) # Ideal the export carries a  *)
(* named alternative (Known_f): the value the unrepaired code returns.     *)
(* The replay compares the real library with Ideal only; a deviation that  *)
(* equals a named alternative gets that alternative's signature.           *)
(*                                                                         *)
(* Numbers: all data are small integers; multipliers k = k2/2 are carried  *)
(* as rationals <<n, d>> with d a power of two.  Transcendental atoms are  *)
(* exported symbolically (atom id, K, C0, Cs): value = K*f(a) + C0 + Cs*s; *)
(* the harness owns only the closed form f.                                *)
(***************************************************************************)
EXTENDS Integers, Sequences, FiniteSets, TLC, SequencesExt, FiniteSetsExt, Json

CONSTANTS Kind,    \* "vars" | "ldr" | "call" | "atom" | "dro"
          Fixed,   \* defect flags repaired in the transcription checked by CodeIsIdeal
          P        \* parameters of the scene family (a record; fields per kind, see below)

VARIABLES scene,   \* the declarations chosen at Init (a record)
          hist,    \* history of adapt() calls (kinds "ldr", "dro")
          out,     \* outcome of the last action "ok" | "err"
          dep,     \* transcription: DecRule.depend (ldr) / DecVar.event_adapt (dro)
          decl     \* ghost: dependencies (ldr) / scenarios (dro) the user declared

vars == <<scene, hist, out, dep, decl>>

NaN  == -99999      \* stands for numpy.nan in exported integer arrays
None == 99          \* stands for Python None in slices

\* ---------------------------------------------------------------- defect flags (Known_f)
FlagSeq == <<"slice-get", "dro-slice-get", "ldr-noadapt-get", "ldr-noadapt-call",
             "dro-mixed-call", "dro-sw-single", "power-offset", "power-abs", "entropy-sign",
             "persp-scale", "sum-call", "sum-ops", "square-shape">>
AllFlags == {FlagSeq[i] : i \in 1..Len(FlagSeq)}

SigOf(f) ==
    CASE f = "slice-get"        -> "slice-get-returns-whole-array"
      [] f = "dro-slice-get"    -> "slice-get-raises-unsolved:dro"
      [] f = "ldr-noadapt-get"  -> "ldr-coef-query:never-adapted:raises"
      [] f = "ldr-noadapt-call" -> "ldr-call:never-adapted:rejects-realisation"
      [] f = "dro-mixed-call"   -> "dro-biaffine-call:static-coefficient-eventwise-offset:raises"
      [] f = "dro-sw-single"    -> "dro-affine-call:scenario-wise-values:not-eventwise:first-scenario-only"
      [] f = "power-offset"     -> "atom-call:power:offset-added-twice"
      [] f = "power-abs"        -> "atom-call:power:negative-input-not-abs"
      [] f = "entropy-sign"     -> "atom-call:entropy:wrong-sign"
      [] f = "persp-scale"      -> "atom-call:perspective:scale-ignored"
      [] f = "sum-call"         -> "atom-call:sum:returns-elementwise"
      [] f = "sum-ops"          -> "atom-call:sum:returns-elementwise"
      [] f = "square-shape"     -> "atom-call:square:input-shape-lost"

\* ---------------------------------------------------------------- small arithmetic
RECURSIVE SumSeq(_)
SumSeq(s) == IF s = <<>> THEN 0 ELSE Head(s) + SumSeq(Tail(s))
Abs(x) == IF x < 0 THEN -x ELSE x
Sgn(x) == IF x < 0 THEN -1 ELSE IF x > 0 THEN 1 ELSE 0
MaxOf(S) == CHOOSE x \in S : \A y \in S : y <= x
Rng(s) == {s[i] : i \in 1..Len(s)}
SortedSeq(S) == SetToSortSeq(S, <)

\* rationals n/d, d a power of two, kept normalised so that equality is structural
RECURSIVE RNorm(_, _)
RNorm(n, d) == IF d > 1 /\ n % 2 = 0 THEN RNorm(n \div 2, d \div 2) ELSE <<n, d>>
RInt(n) == <<n, 1>>
RMulK2(r, k2) == RNorm(r[1] * k2, r[2] * 2)          \* r * (k2/2)
RNeg(r) == <<-r[1], r[2]>>
RAddInt(r, c) == RNorm(r[1] + c * r[2], r[2])
RMulInt(r, c) == RNorm(r[1] * c, r[2])

\* value forms: an integer array over a common denominator, or an exception class
Val(shape, den, flat) == [shape |-> shape, den |-> den, flat |-> flat, raises |-> ""]
Raises(exc) == [shape |-> <<>>, den |-> 1, flat |-> <<>>, raises |-> exc]

-----------------------------------------------------------------------------
(***************************************************************************)
(* Kind "vars": decision arrays declared in some order (ro, or dro with a  *)
(* single static scenario), every entry pinned to the distinct integer     *)
(* VVal(position, flat index).  P = [FrontEnds, ShapeIds, MaxArrays,       *)
(* Senses, Weights, Col0].                                                 *)
(***************************************************************************)
ShapeOf(id) == CASE id = 1 -> <<>> [] id = 2 -> <<2>> [] id = 3 -> <<3>>
                 [] id = 4 -> <<2, 2>> [] id = 5 -> <<2, 3>>
SizeOf(sh) == IF Len(sh) = 0 THEN 1 ELSE IF Len(sh) = 1 THEN sh[1] ELSE sh[1] * sh[2]
VVal(p, i) == 10 * p + i                 \* ghost: value of flat entry i (0-based) of the p-th array

II(i) == [t |-> "i", i |-> i, a |-> 0, b |-> 0, st |-> 1, l |-> <<>>]
SS(a, b, st) == [t |-> "s", i |-> 0, a |-> a, b |-> b, st |-> st, l |-> <<>>]
LL(l) == [t |-> "l", i |-> 0, a |-> 0, b |-> 0, st |-> 1, l |-> l]
Full == SS(None, None, 1)
Sel(name, items) == [name |-> name, items |-> items, pairs |-> FALSE]
Prs(name, rows, cols) == [name |-> name, items |-> <<LL(rows), LL(cols)>>, pairs |-> TRUE]
NoSel == Sel("whole", <<>>)

\* selector catalogue: int, negative int, slice, slice with step, negative stop, list, and for
\* 2-D arrays row / element / row-with-slice / column / strided columns / zipped index pairs
Selectors(id) ==
    CASE id = 1 -> <<>>
      [] id = 2 -> << Sel("int", <<II(0)>>), Sel("negint", <<II(-1)>>), Sel("slice", <<SS(1, None, 1)>>),
                      Sel("step", <<SS(None, None, 2)>>), Sel("list", <<LL(<<1, 0>>)>>) >>
      [] id = 3 -> << Sel("int", <<II(1)>>), Sel("negint", <<II(-1)>>), Sel("slice", <<SS(1, None, 1)>>),
                      Sel("negstop", <<SS(None, -1, 1)>>), Sel("step", <<SS(None, None, 2)>>),
                      Sel("list", <<LL(<<2, 0>>)>>) >>
      [] id = 4 -> << Sel("row", <<II(1)>>), Sel("negrow", <<II(-1)>>), Sel("elem", <<II(1), II(0)>>),
                      Sel("rowslice", <<II(1), SS(1, None, 1)>>), Sel("col", <<Full, II(1)>>),
                      Sel("stepcols", <<Full, SS(None, None, 2)>>), Prs("pairs", <<0, 1>>, <<1, 0>>),
                      Sel("rows", <<SS(0, 1, 1)>>), Sel("rowlist", <<LL(<<1, 0>>)>>) >>
      [] id = 5 -> << Sel("row", <<II(1)>>), Sel("negrow", <<II(-1)>>), Sel("elem", <<II(0), II(-1)>>),
                      Sel("rowslice", <<II(1), SS(1, None, 1)>>), Sel("col", <<Full, II(2)>>),
                      Sel("stepcols", <<Full, SS(None, None, 2)>>), Prs("pairs", <<0, 1>>, <<2, 0>>),
                      Sel("rows", <<SS(0, 1, 1)>>), Sel("rowlistcols", <<II(-1), LL(<<2, 0>>)>>) >>

\* NumPy basic / advanced indexing on a row-major array (index arithmetic)
Norm(i, n) == IF i < 0 THEN i + n ELSE i
Clamp(v, n) == IF v < 0 THEN 0 ELSE IF v > n THEN n ELSE v
SliceSeq(n, a, b, st) ==
    LET lo == IF a = None THEN 0 ELSE Clamp(Norm(a, n), n)
        hi == IF b = None THEN n ELSE Clamp(Norm(b, n), n)
        cnt == IF hi > lo THEN ((hi - lo + st - 1) \div st) ELSE 0
    IN [k \in 1..cnt |-> lo + (k - 1) * st]
AxisIdx(n, it) == CASE it.t = "i" -> <<Norm(it.i, n)>>
                    [] it.t = "l" -> [k \in 1..Len(it.l) |-> Norm(it.l[k], n)]
                    [] it.t = "s" -> SliceSeq(n, it.a, it.b, it.st)
Kept(it, ix) == IF it.t = "i" THEN <<>> ELSE <<Len(ix)>>
\* result shape and the 0-based flat source index of every result entry (row-major)
SelResult(sh, sel) ==
    IF sel.name = "whole" THEN [shape |-> sh, src |-> [j \in 1..SizeOf(sh) |-> j - 1]]
    ELSE IF sel.pairs THEN
        LET rows == sel.items[1].l
            cols == sel.items[2].l
        IN [shape |-> <<Len(rows)>>,
            src |-> [k \in 1..Len(rows) |-> Norm(rows[k], sh[1]) * sh[2] + Norm(cols[k], sh[2])]]
    ELSE IF Len(sh) = 1 THEN
        LET ix == AxisIdx(sh[1], sel.items[1])
        IN [shape |-> Kept(sel.items[1], ix), src |-> ix]
    ELSE
        LET it0 == sel.items[1]
            it1 == IF Len(sel.items) >= 2 THEN sel.items[2] ELSE Full
            i0 == AxisIdx(sh[1], it0)
            i1 == AxisIdx(sh[2], it1)
            l1 == Len(i1)
        IN [shape |-> Kept(it0, i0) \o Kept(it1, i1),
            src |-> [j \in 1..(Len(i0) * l1) |-> i0[((j - 1) \div l1) + 1] * sh[2] + i1[((j - 1) % l1) + 1]]]

VarScenes ==
    {[fe |-> fe, shapes |-> s, sense |-> sn, w |-> w] :
        fe \in P.FrontEnds, s \in UNION {[1..n -> P.ShapeIds] : n \in 1..P.MaxArrays},
        sn \in P.Senses, w \in P.Weights}

LinSpecs == << <<2, 3>>, <<-4, -1>>, <<1, 4>> >>       \* (k2, c): k*x[sel] + c with k = k2/2 = 1, -2, 0.5
AMat(i, t) == 2 * i - t                                \* the 2 x n matrix of (A @ x)()
VQ(q, p, sel, k2, c) == [q |-> q, var |-> p, sel |-> sel, k2 |-> k2, c |-> c]
QsForSel(p, sel) == << VQ("get", p, sel, 2, 0), VQ("call", p, sel, 2, 0) >>
                    \o [j \in 1..Len(LinSpecs) |-> VQ("lin", p, sel, LinSpecs[j][1], LinSpecs[j][2])]
QsForVar(sc, p) ==
    LET id == sc.shapes[p]
        sels == Selectors(id)
    IN QsForSel(p, NoSel) \o (IF id = 1 THEN <<>> ELSE << VQ("mat", p, NoSel, 2, 0) >>)
       \o FlattenSeq([j \in 1..Len(sels) |-> QsForSel(p, sels[j])])
VarQueries(sc) == FlattenSeq([p \in 1..Len(sc.shapes) |-> QsForVar(sc, p)]) \o << VQ("obj", 0, NoSel, 2, 0) >>

\* transcription: column of the first entry of the p-th array (Vars.first) and the solution vector
First(sc, p) == P.Col0 + SumSeq([q \in 1..(p - 1) |-> SizeOf(ShapeOf(sc.shapes[q]))])
Sol(sc, col) ==
    LET p == CHOOSE p \in 1..Len(sc.shapes) :
                 First(sc, p) <= col /\ col < First(sc, p) + SizeOf(ShapeOf(sc.shapes[p]))
    IN VVal(p, col - First(sc, p))
CodeEnt(sc, p, i) == Sol(sc, First(sc, p) + i)          \* solution.x[first + i]

MatVal(sh, p, Ent(_, _)) ==
    IF Len(sh) = 1
    THEN Val(<<2>>, 1, [i \in 1..2 |-> SumSeq([t \in 1..sh[1] |-> AMat(i, t) * Ent(p, t - 1)])])
    ELSE Val(<<2, sh[2]>>, 1,
             [j \in 1..(2 * sh[2]) |->
                 SumSeq([t \in 1..sh[1] |-> AMat(((j - 1) \div sh[2]) + 1, t) * Ent(p, (t - 1) * sh[2] + ((j - 1) % sh[2]))])])
VarVal(sc, q, Ent(_, _)) ==
    LET sh == ShapeOf(sc.shapes[q.var])
        r == SelResult(sh, q.sel)
    IN CASE q.q \in {"get", "call"} -> Val(r.shape, 1, [j \in 1..Len(r.src) |-> Ent(q.var, r.src[j])])
         [] q.q = "lin" -> Val(r.shape, 2, [j \in 1..Len(r.src) |-> q.k2 * Ent(q.var, r.src[j]) + 2 * q.c])
         [] q.q = "mat" -> MatVal(sh, q.var, Ent)
ObjSum(sc, Ent(_, _)) == SumSeq([i \in 1..SizeOf(ShapeOf(sc.shapes[1])) |-> Ent(1, i - 1)])

\* ModelGet: the user's objective  sense  w * sum(first array), in the user's sense
VarIdeal(sc, q) ==
    IF q.q = "obj" THEN Val(<<>>, 1, << sc.w * ObjSum(sc, LAMBDA p, i : VVal(p, i)) >>)
    ELSE VarVal(sc, q, LAMBDA p, i : VVal(p, i))
\* Model.get: self.sign * solution.objval, the solver minimising sign * objective;
\* Vars.get: solution.x[first : first+size].reshape(shape);  VarSub inherits it (ignores indices);
\* DecVarSub inherits it too and looks at the unsolved inner model;  __call__: to_affine()() .
VarCode(sc, q, F) ==
    LET sgn == IF sc.sense = "min" THEN 1 ELSE -1 IN
    IF q.q = "obj" THEN Val(<<>>, 1, << sgn * (sgn * sc.w * ObjSum(sc, LAMBDA p, i : CodeEnt(sc, p, i))) >>)
    ELSE IF q.q = "get" /\ q.sel.name # "whole" /\ sc.fe = "ro" /\ "slice-get" \notin F
         THEN VarVal(sc, [q EXCEPT !.sel = NoSel], LAMBDA p, i : CodeEnt(sc, p, i))
    ELSE IF q.q = "get" /\ q.sel.name # "whole" /\ sc.fe = "dro" /\ "dro-slice-get" \notin F
         THEN Raises("RuntimeError")
    ELSE VarVal(sc, q, LAMBDA p, i : CodeEnt(sc, p, i))

-----------------------------------------------------------------------------
(***************************************************************************)
(* Kind "ldr": ro decision rule y (NY entries) of random arrays z1 (N1)    *)
(* and z2 (N2); the history of adapt() calls is the state.  P = [N1, N2,   *)
(* NY, YSels, RSels, GSels, MaxSteps, V1, V2, OSenses].                    *)
(* Pinned model: y_i(z) == DVal(i) + sum_k decl[i][k] * CVal(i,k) * z_k    *)
(* for all z in the unit box.                                              *)
(***************************************************************************)
NR == P.N1 + P.N2
Off(rv) == IF rv = 1 THEN 0 ELSE P.N1
NOf(rv) == IF rv = 1 THEN P.N1 ELSE P.N2
RComps(rs) == {Off(rs.rv) + c + 1 : c \in Rng(rs.comps)}
YRows(ys) == {i + 1 : i \in Rng(ys.idx)}
DVal(i) == 5 * i
CVal(i, k) == 1 + (i - 1) * NR + k
NoDep == [i \in 1..P.NY |-> [k \in 1..NR |-> FALSE]]
SetDep(m, ys, rs) == [i \in 1..P.NY |-> [k \in 1..NR |-> m[i][k] \/ (i \in YRows(ys) /\ k \in RComps(rs))]]
Clash(m, ys, rs) == \E i \in YRows(ys), k \in RComps(rs) : m[i][k]

\* DecRule.adapt (lp.py:5056) / DecRuleSub.adapt: RuntimeError on redefinition (checked before any
\* write: no partial mutation), otherwise depend[rows x comps] = 1
AdaptRule(ys, rs) ==
    /\ Len(hist) < P.MaxSteps
    /\ out' = IF Clash(dep, ys, rs) THEN "err" ELSE "ok"
    /\ dep' = IF Clash(dep, ys, rs) THEN dep ELSE SetDep(dep, ys, rs)
    /\ decl' = IF Clash(decl, ys, rs) THEN decl ELSE SetDep(decl, ys, rs)
    /\ hist' = Append(hist, [ysel |-> ys, rsel |-> rs, ok |-> ~Clash(decl, ys, rs)])
    /\ UNCHANGED scene
DoAdaptRule == Kind = "ldr" /\ \E a \in 1..Len(P.YSels), b \in 1..Len(P.RSels) : AdaptRule(P.YSels[a], P.RSels[b])

\* DecRule.to_affine: the j-th coefficient variable multiplies z_k in row i iff (i,k) is the j-th
\* one of depend in row-major order; DecRule.get writes var_coeff.get() back in np.where order.
Pairs == (1..P.NY) \X (1..NR)
RankIn(m, i, k) == Cardinality({pr \in Pairs : m[pr[1]][pr[2]] /\ (pr[1] < i \/ (pr[1] = i /\ pr[2] <= k))})
CoefSol(j) == LET pr == CHOOSE pr \in Pairs : dep[pr[1]][pr[2]] /\ RankIn(dep, pr[1], pr[2]) = j
              IN CVal(pr[1], pr[2])            \* value the pinned model forces on coefficient variable j
CodeCoef(i, k) == IF dep[i][k] THEN CoefSol(RankIn(dep, i, k)) ELSE NaN
IdealCoef(i, k) == IF decl[i][k] THEN CVal(i, k) ELSE NaN
NoAdapt == \A pr \in Pairs : ~dep[pr[1]][pr[2]]

LdrModes == IF P.N2 = 0 THEN <<"z1", "none">> ELSE <<"both", "rev", "z1", "z2", "none">>
ArgsOf(mode) == CASE mode = "both" -> <<1, 2>> [] mode = "rev" -> <<2, 1>> [] mode = "z1" -> <<1>>
                  [] mode = "z2" -> <<2>> [] mode = "none" -> <<>> [] mode = "z1scalar" -> <<1>>
VOf(rv) == IF rv = 1 THEN P.V1 ELSE P.V2
IdealVec(mode) == [k \in 1..NR |-> IF k <= P.N1 THEN (IF 1 \in Rng(ArgsOf(mode)) THEN P.V1[k] ELSE 0)
                                   ELSE (IF 2 \in Rng(ArgsOf(mode)) THEN P.V2[k - P.N1] ELSE 0)]
\* RoAffine.__call__: rvec = zeros; for arg in args: rvec[arg.rvar.first : arg.rvar.last] = arg.values
RECURSIVE FillVec(_, _)
FillVec(vec, args) ==
    IF args = <<>> THEN vec
    ELSE LET rv == Head(args) IN
         FillVec([k \in 1..NR |-> IF k > Off(rv) /\ k <= Off(rv) + NOf(rv) THEN VOf(rv)[k - Off(rv)] ELSE vec[k]], Tail(args))
CodeVec(mode) == FillVec([k \in 1..NR |-> 0], ArgsOf(mode))
RuleVal(i, vec, Coef(_, _)) ==
    DVal(i) + SumSeq([k \in 1..NR |-> IF Coef(i, k) = NaN THEN 0 ELSE Coef(i, k) * vec[k]])
WorstObj(Coef(_, _)) ==
    LET sd == SumSeq([i \in 1..P.NY |-> DVal(i)])
        sw == SumSeq([k \in 1..NR |-> Abs(SumSeq([i \in 1..P.NY |-> IF Coef(i, k) = NaN THEN 0 ELSE Coef(i, k)]))])
    IN IF scene.osense = "minmax" THEN sd + sw ELSE sd - sw

LQ(q, g, mode, i) == [q |-> q, g |-> g, mode |-> mode, i |-> i]
NoG == [rv |-> 1, form |-> "whole", comps |-> <<>>]
LdrQueries ==
    << LQ("get0", NoG, "none", 0), LQ("obj", NoG, "none", 0) >>
    \o [j \in 1..Len(P.GSels) |-> LQ("coef", P.GSels[j], "none", 0)]
    \o [j \in 1..Len(LdrModes) |-> LQ("rulecall", NoG, LdrModes[j], 0)]
    \o << LQ("subcall", NoG, LdrModes[1], 0), LQ("subcall", NoG, LdrModes[1], -1), LQ("lincall", NoG, LdrModes[1], 0) >>

LdrVal(q, vec, Coef(_, _)) ==
    CASE q.q = "get0" -> Val(<<P.NY>>, 1, [i \in 1..P.NY |-> DVal(i)])
      [] q.q = "obj" -> Val(<<>>, 1, << WorstObj(Coef) >>)
      [] q.q = "coef" ->
            LET L == Len(q.g.comps) IN
            Val(<<P.NY>> \o (IF q.g.form = "int" THEN <<>> ELSE <<L>>), 1,
                [j \in 1..(P.NY * L) |-> Coef(((j - 1) \div L) + 1, Off(q.g.rv) + q.g.comps[((j - 1) % L) + 1] + 1)])
      [] q.q = "rulecall" -> Val(<<P.NY>>, 1, [i \in 1..P.NY |-> RuleVal(i, vec, Coef)])
      [] q.q = "subcall" -> Val(<<>>, 1, << RuleVal(Norm(q.i, P.NY) + 1, vec, Coef) >>)
      [] q.q = "lincall" -> Val(<<P.NY>>, 1, [i \in 1..P.NY |-> 2 * RuleVal(i, vec, Coef) + 1])
LdrIdeal(q) == LdrVal(q, IdealVec(q.mode), LAMBDA i, k : IdealCoef(i, k))
\* a rule that was never adapted is a plain Affine: np.where(None == 1) raises in get(rvar), and
\* Affine.__call__ takes no realisations
LdrCode(q, F) ==
    IF q.q = "coef" /\ NoAdapt /\ "ldr-noadapt-get" \notin F THEN Raises("ValueError")
    ELSE IF q.q \in {"rulecall", "subcall", "lincall"} /\ NoAdapt /\ q.mode # "none" /\ "ldr-noadapt-call" \notin F
         THEN Raises("TypeError")
    ELSE LdrVal(q, CodeVec(q.mode), LAMBDA i, k : CodeCoef(i, k))

-----------------------------------------------------------------------------
(***************************************************************************)
(* Kind "call": bi-affine expressions of ro built through the API on x     *)
(* (2 entries, pinned to P.X) and z1, z2 (2 components each), called with  *)
(* realisations.  P = [X, VSets, Tmpls, Modes, Scalar].                    *)
(***************************************************************************)
Ca == <<1, 2>>
CA1 == << <<1, -1>>, <<2, 0>> >>
CA2 == << <<0, 1>>, <<1, 1>> >>
Cb == 4
CB1 == <<2, -1>>
CB2 == <<1, 3>>
Dot(u, v) == SumSeq([i \in 1..Len(u) |-> u[i] * v[i]])
Z1(z) == <<z[1], z[2]>>
Z2(z) == <<z[3], z[4]>>
T2Ent(x, z, i) == x[i] * z[i] + Dot(CA2[i], Z2(z)) - 1
\* what the expression the user wrote means at decision x and realisation z = (z1, z2)
Meaning(t, x, z) ==
    CASE t = 1 -> Val(<<>>, 1, << Dot([i \in 1..2 |-> Ca[i] + Dot(CA1[i], Z1(z)) + Dot(CA2[i], Z2(z))], x)
                                  + Cb + Dot(CB1, Z1(z)) + Dot(CB2, Z2(z)) >>)     \* (a + A1@z1 + A2@z2)@x + b + B1@z1 + B2@z2
      [] t = 2 -> Val(<<2>>, 1, [i \in 1..2 |-> T2Ent(x, z, i)])                  \* x*z1 + A2@z2 - 1
      [] t = 3 -> Val(<<>>, 1, << SumSeq([j \in 1..2 |-> (z[1] * CA1[1][j] + z[2] * CA1[2][j]) * x[j]]) >>)  \* (z1@A1)@x
      [] t = 4 -> Val(<<2>>, 1, [i \in 1..2 |-> z[1] * x[i] + z[4] * x[3 - i] + z[i]])   \* z1[0]*x + z2[1]*x[::-1] + z1
      [] t = 5 -> Val(<<>>, 1, << 2 * T2Ent(x, z, 2) + 1 >>)                      \* (2*T2 + 1)[1]
      [] t = 6 -> Val(<<>>, 1, << T2Ent(x, z, 1) + T2Ent(x, z, 2) >>)             \* T2.sum()
      [] t = 7 -> Val(<<2, 2>>, 1, [j \in 1..4 |-> z[((j - 1) % 2) + 1] * x[((j - 1) % 2) + 1]])   \* ones((2,2))*z1*x
CallScenes == {[tmpl |-> t, mode |-> m, vs |-> v] : t \in P.Tmpls, m \in P.Modes, v \in 1..Len(P.VSets)}
CallV(sc, rv) == IF sc.mode = "z1scalar" THEN <<P.Scalar, P.Scalar>>
                 ELSE IF rv = 1 THEN P.VSets[sc.vs].v1 ELSE P.VSets[sc.vs].v2
CallIdealZ(sc) == [k \in 1..4 |-> IF k <= 2 THEN (IF 1 \in Rng(ArgsOf(sc.mode)) THEN CallV(sc, 1)[k] ELSE 0)
                                  ELSE (IF 2 \in Rng(ArgsOf(sc.mode)) THEN CallV(sc, 2)[k - 2] ELSE 0)]
RECURSIVE CallFill(_, _, _)
CallFill(sc, vec, args) ==
    IF args = <<>> THEN vec
    ELSE LET rv == Head(args)
             o == IF rv = 1 THEN 0 ELSE 2
         IN CallFill(sc, [k \in 1..4 |-> IF k > o /\ k <= o + 2 THEN CallV(sc, rv)[k - o] ELSE vec[k]], Tail(args))
CallIdeal(sc) == Meaning(sc.tmpl, P.X, CallIdealZ(sc))
CallCode(sc, F) == Meaning(sc.tmpl, P.X, CallFill(sc, <<0, 0, 0, 0>>, ArgsOf(sc.mode)))

-----------------------------------------------------------------------------
(***************************************************************************)
(* Kind "atom": k*atom(x) + c chains.  The state of a Convex object is     *)
(* (affine_out, sign, multiplier, sum_axis); the ghost is the meaning      *)
(* K*f(x) + C0 + Cs*s.  P = [FrontEnds, Atoms, Points, Ops, MaxChain].     *)
(***************************************************************************)
AI(x, s0, rel, dom, persp, sum, shp, unsup) ==
    [x |-> x, s0 |-> s0, rel |-> rel, dom |-> dom, persp |-> persp, sum |-> sum, shp |-> shp, unsup |-> unsup]
\* xtype, initial sign, f = rel * (the non-negative base function the code evaluates), domain,
\* perspective?, .sum()?, input shape, front ends whose __call__ names the atom "Unsupported"
AtomInfo(a) ==
    CASE a = "abs"        -> AI("A", 1, 1, "real", FALSE, FALSE, "vec", {})
      [] a = "norm1"      -> AI("M", 1, 1, "real", FALSE, FALSE, "vec", {})
      [] a = "norm2"      -> AI("E", 1, 1, "real", FALSE, FALSE, "vec", {})
      [] a = "norminf"    -> AI("I", 1, 1, "real", FALSE, FALSE, "vec", {})
      [] a = "square"     -> AI("S", 1, 1, "real", FALSE, FALSE, "vec", {})
      [] a = "square2d"   -> AI("S", 1, 1, "real", FALSE, FALSE, "mat", {})
      [] a = "square0d"   -> AI("S", 1, 1, "real", FALSE, FALSE, "sca", {})
      [] a = "sumsqr"     -> AI("Q", 1, 1, "real", FALSE, FALSE, "vec", {})
      [] a = "quad"       -> AI("Q", 1, 1, "real", FALSE, FALSE, "vec", {})
      [] a = "quadneg"    -> AI("Q", -1, -1, "real", FALSE, FALSE, "vec", {})
      [] a = "pnorm3"     -> AI("G", 1, 1, "real", FALSE, FALSE, "vec", {})
      [] a = "pnorm52"    -> AI("G", 1, 1, "real", FALSE, FALSE, "vec", {})
      [] a = "pnorm25exc" -> AI("N", 1, 1, "real", FALSE, FALSE, "vec", {})
      [] a = "pnorm3exc"  -> AI("N", 1, 1, "real", FALSE, FALSE, "vec", {})
      [] a = "power3"     -> AI("T", 1, 1, "real", FALSE, FALSE, "vec", {"dro"})
      [] a = "power32"    -> AI("T", 1, 1, "real", FALSE, FALSE, "vec", {"dro"})
      [] a = "power22"    -> AI("A", 1, 1, "real", FALSE, FALSE, "vec", {})
      [] a = "exp"        -> AI("X", 1, 1, "real", FALSE, FALSE, "vec", {})
      [] a = "exp2d"      -> AI("X", 1, 1, "real", FALSE, FALSE, "mat", {})
      [] a = "log"        -> AI("L", -1, 1, "pos", FALSE, FALSE, "vec", {})
      [] a = "entropy"    -> AI("P", -1, 1, "pos", FALSE, FALSE, "vec", {})
      [] a = "entropy0d"  -> AI("P", -1, 1, "pos", FALSE, FALSE, "sca", {})
      [] a = "softplus"   -> AI("F", 1, 1, "real", FALSE, FALSE, "vec", {"dro"})
      [] a = "pexp2"      -> AI("X", 1, 1, "real", TRUE, FALSE, "vec", {"dro"})
      [] a = "pexps"      -> AI("X", 1, 1, "real", TRUE, FALSE, "vec", {"dro"})
      [] a = "plog2"      -> AI("L", -1, 1, "pos", TRUE, FALSE, "vec", {"dro"})
      [] a = "plogs"      -> AI("L", -1, 1, "pos", TRUE, FALSE, "vec", {"dro"})
      [] a = "expsum"     -> AI("X", 1, 1, "real", FALSE, TRUE, "vec", {"dro"})
      [] a = "logsum"     -> AI("L", -1, 1, "pos", FALSE, TRUE, "vec", {"dro"})
      [] a = "gmean"      -> AI("C", -1, 1, "pos", FALSE, FALSE, "vec", {"ro", "dro"})

Chains == UNION {[1..n -> Rng(P.Ops)] : n \in 0..P.MaxChain}
AtomScenes ==
    {[fe |-> fe, atom |-> a, point |-> pt, chain |-> ch] :
        fe \in P.FrontEnds, a \in P.Atoms, pt \in P.Points, ch \in Chains}
AtomSceneOK(sc) == sc.point = "pos" \/ AtomInfo(sc.atom).dom = "real"

\* Convex.__mul__ / __neg__ / __add__ / __rsub__ (lp.py:2467-2525); DecConvex wraps the same
St0(info) == [on |-> RInt(0), sn |-> RInt(0), sign |-> info.s0, m |-> RInt(1), sumax |-> info.sum]
NegSt(st, F) == [st EXCEPT !.on = RNeg(@), !.sn = RNeg(@), !.sign = -@, !.sumax = @ /\ "sum-ops" \in F]
AddSt(st, c, F) == [st EXCEPT !.on = RAddInt(@, c), !.sumax = @ /\ "sum-ops" \in F]
StepCode(st, o, F) ==
    CASE o.op = "mul" -> [on |-> RMulK2(st.on, o.k2), sn |-> RMulK2(st.sn, o.k2), sign |-> Sgn(o.k2) * st.sign,
                          m |-> RMulK2(st.m, Abs(o.k2)),      \* multiplier*|k|  ('S','Q': multiplier^2)
                          sumax |-> st.sumax /\ "sum-ops" \in F]
      [] o.op = "neg" -> NegSt(st, F)
      [] o.op = "addc" -> AddSt(st, o.c, F)
      [] o.op = "adds" -> [st EXCEPT !.sn = RAddInt(@, 1), !.sumax = @ /\ "sum-ops" \in F]
      [] o.op = "rsubc" -> AddSt(NegSt(st, F), o.c, F)
M0 == [K |-> RInt(1), C0 |-> RInt(0), Cs |-> RInt(0)]
StepMean(mn, o) ==
    CASE o.op = "mul" -> [K |-> RMulK2(mn.K, o.k2), C0 |-> RMulK2(mn.C0, o.k2), Cs |-> RMulK2(mn.Cs, o.k2)]
      [] o.op = "neg" -> [K |-> RNeg(mn.K), C0 |-> RNeg(mn.C0), Cs |-> RNeg(mn.Cs)]
      [] o.op = "addc" -> [mn EXCEPT !.C0 = RAddInt(@, o.c)]
      [] o.op = "adds" -> [mn EXCEPT !.Cs = RAddInt(@, 1)]
      [] o.op = "rsubc" -> [K |-> RNeg(mn.K), C0 |-> RAddInt(RNeg(mn.C0), o.c), Cs |-> RNeg(mn.Cs)]
RECURSIVE RunCode(_, _, _, _)
RunCode(st, ch, i, F) == IF i > Len(ch) THEN st ELSE RunCode(StepCode(st, ch[i], F), ch, i + 1, F)
RECURSIVE RunMean(_, _, _)
RunMean(mn, ch, i) == IF i > Len(ch) THEN mn ELSE RunMean(StepMean(mn, ch[i]), ch, i + 1)

AForm(K, C0, Cs, fvar) == [K |-> K, C0 |-> C0, Cs |-> Cs, fvar |-> fvar]
AtomIdeal(sc) == LET mn == RunMean(M0, sc.chain, 1) IN AForm(mn.K, mn.C0, mn.Cs, "exact")
\* Convex.__call__ (lp.py:2557) / DecConvex.__call__ (lp.py:4507):
\*   multiplier*sign*base(value_in) + value_out; 'L' carries an explicit minus; 'P' does not (defect);
\*   'T' adds value_out a second time (defect) and raises value_in (not |value_in|) to p/q (defect);
\*   PerspConvex inherits the call (scale ignored); sum_axis is not looked at; 'S' keeps the
\*   flattened input shape.
AtomCode(sc, F) ==
    LET info == AtomInfo(sc.atom)
        st == RunCode(St0(info), sc.chain, 1, F)
        base == IF st.sign = 1 THEN st.m ELSE RNeg(st.m)
        flip == info.x = "L" \/ (info.x = "P" /\ "entropy-sign" \in F)
        k0 == IF flip THEN RNeg(base) ELSE base
        K == IF info.rel = 1 THEN k0 ELSE RNeg(k0)
        dbl == info.x = "T" /\ "power-offset" \notin F
        fvar == IF info.x = "T" /\ sc.point = "mixed" /\ "power-abs" \notin F THEN "noabs"
                ELSE IF info.persp /\ "persp-scale" \notin F THEN "noscale"
                ELSE IF info.sum /\ ~(st.sumax /\ "sum-call" \in F) THEN "elementwise"
                ELSE IF info.x = "S" /\ info.shp # "vec" /\ "square-shape" \notin F THEN "flatshape"
                ELSE "exact"
    IN IF sc.fe \in info.unsup THEN AtomIdeal(sc)
       ELSE AForm(K, IF dbl THEN RMulInt(st.on, 2) ELSE st.on, IF dbl THEN RMulInt(st.sn, 2) ELSE st.sn, fvar)

-----------------------------------------------------------------------------
(***************************************************************************)
(* Kind "dro": event-wise decisions on NS labelled scenarios; the history  *)
(* of x.adapt(E) calls is the state (event list transcribed from           *)
(* DecVar.evtadapt as in Partition.tla).  P = [NS, Zhat, LabelKinds,       *)
(* MaxSteps, V, Vs].  Model: z == Zhat[s] in scenario s, u in the unit     *)
(* box; x (2 entries, event-wise), w (static), y (event-wise like x and    *)
(* affine in u[1]);  x[i] >= (i+1)*z,  w == 5,  y == x[0] + 3*u[1],        *)
(* minimise sup E[sum x] with p_s = 1/NS.  So x_s = (EM_s, 2 EM_s) with    *)
(* EM_s the maximum of Zhat over the event of s.                           *)
(***************************************************************************)
Scen == 0..(P.NS - 1)
BlockOf(e, s) == CHOOSE k \in 1..Len(e) : s \in Rng(e[k])
RECURSIVE RemoveAll(_, _)
RemoveAll(f, E) ==
    IF E = <<>> THEN [ok |-> TRUE, f |-> f]
    ELSE IF Head(E) \in Rng(f) THEN RemoveAll(SelectSeq(f, LAMBDA x : x # Head(E)), Tail(E))
         ELSE [ok |-> FALSE, f |-> f]
EvtAdaptResult(e, E) ==
    LET r == RemoveAll(e[1], E) IN
    IF r.ok THEN [ok |-> TRUE, e |-> Append(IF r.f = <<>> THEN Tail(e) ELSE <<r.f>> \o Tail(e), E)]
    ELSE [ok |-> FALSE, e |-> <<r.f>> \o Tail(e)]
EvtArgs == {SortedSeq(S) : S \in (SUBSET Scen) \ {{}}}
           \cup {Reverse(SortedSeq(S)) : S \in {T \in SUBSET Scen : Cardinality(T) = 2}}
AdaptEvents(E) ==
    /\ Len(hist) < P.MaxSteps
    /\ Rng(E) \cap decl = {}                      \* legal declarations only (illegal ones: Partition.tla / C13)
    /\ dep' = EvtAdaptResult(dep, E).e
    /\ out' = IF EvtAdaptResult(dep, E).ok THEN "ok" ELSE "err"
    /\ decl' = decl \cup Rng(E)
    /\ hist' = Append(hist, [E |-> E])
    /\ UNCHANGED scene
DoAdaptEvents == Kind = "dro" /\ \E E \in EvtArgs : AdaptEvents(E)

\* ghost: the event of scenario s is what it was declared with, or the undeclared rest
EventOf(s) == IF s \in decl THEN Rng(hist[CHOOSE j \in 1..Len(hist) : s \in Rng(hist[j].E)].E) ELSE Scen \ decl
IdealEM(s) == MaxOf({P.Zhat[t + 1] : t \in EventOf(s)})
IdealMulti == Cardinality({EventOf(s) : s \in Scen}) > 1
\* DecVar.get: outputs[k] is the value of block k; label s gets outputs[event_dict[s]]
CodeEM(s) == MaxOf({P.Zhat[t + 1] : t \in Rng(dep[BlockOf(dep, s)])})
CodeMulti == Len(dep) > 1

DVal2(series, shape, den, vals) == [series |-> series, shape |-> shape, den |-> den, vals |-> vals, raises |-> ""]
DRaises(exc) == [series |-> FALSE, shape |-> <<>>, den |-> 1, vals |-> <<>>, raises |-> exc]
PerScen(f(_)) == [k \in 1..P.NS |-> f(k - 1)]
DroQNames == <<"x.get", "x.call", "w.get", "w.call", "lin", "sublin", "subget", "mat", "sum", "abs", "norm1",
               "square", "norminf", "bi.ev", "bi.ev.sw", "bi.st", "bi.st.sw", "bi.st.none", "y.get", "y.coef",
               "y.coef1", "y.call", "y.call.sw", "y.none", "ylin", "obj">>
VsAt(s, i) == P.Vs[s + 1][i]
\* EM: per-scenario event maximum, multi: more than one event, swser: what a call with scenario-wise
\* realisations returns for an expression that is not event-wise (TRUE: a Series)
DroVal(q, EM(_), multi, swser) ==
    CASE q = "x.get"    -> DVal2(multi, <<2>>, 1, PerScen(LAMBDA s : <<EM(s), 2 * EM(s)>>))
      [] q = "x.call"   -> DVal2(multi, <<2>>, 1, PerScen(LAMBDA s : <<EM(s), 2 * EM(s)>>))
      [] q = "w.get"    -> DVal2(FALSE, <<>>, 1, PerScen(LAMBDA s : <<5>>))
      [] q = "w.call"   -> DVal2(FALSE, <<>>, 1, PerScen(LAMBDA s : <<5>>))
      [] q = "lin"      -> DVal2(multi, <<2>>, 1, PerScen(LAMBDA s : <<2 * EM(s) + 5, 4 * EM(s) + 5>>))     \* (2*x + w)()
      [] q = "sublin"   -> DVal2(multi, <<>>, 1, PerScen(LAMBDA s : <<2 * EM(s) - 3>>))                     \* (x[1] - 3)()
      [] q = "subget"   -> DVal2(multi, <<>>, 1, PerScen(LAMBDA s : <<2 * EM(s)>>))                         \* x[1].get()
      [] q = "mat"      -> DVal2(multi, <<2>>, 1, PerScen(LAMBDA s : <<EM(s) - 2 * EM(s), 2 * EM(s) + 2 * EM(s)>>))  \* ([[1,-1],[2,1]] @ x)()
      [] q = "sum"      -> DVal2(multi, <<>>, 1, PerScen(LAMBDA s : <<3 * EM(s)>>))                         \* x.sum()()
      [] q = "abs"      -> DVal2(multi, <<2>>, 1, PerScen(LAMBDA s : <<Abs(EM(s)), Abs(2 * EM(s))>>))       \* abs(x)()
      [] q = "norm1"    -> DVal2(multi, <<>>, 1, PerScen(LAMBDA s : <<2 * (Abs(EM(s)) + Abs(2 * EM(s))) - 5>>))   \* (2*norm(x,1) - w)()
      [] q = "square"   -> DVal2(multi, <<2>>, 1, PerScen(LAMBDA s : <<5 - 2 * EM(s) * EM(s), 5 - 8 * EM(s) * EM(s)>>))  \* (-2*square(x) + w)()
      [] q = "norminf"  -> DVal2(multi, <<>>, 1, PerScen(LAMBDA s : <<MaxOf({Abs(EM(s)), Abs(2 * EM(s))}) + EM(s)>>))  \* (norm(x,inf) + x[0])()
      [] q = "bi.ev"    -> DVal2(multi, <<2>>, 1, PerScen(LAMBDA s : <<EM(s) * P.V[1] + 5, EM(s) * P.V[2] + 5>>))   \* (x[0]*u + w)(u.assign(V))
      [] q = "bi.ev.sw" -> DVal2(TRUE, <<2>>, 1, PerScen(LAMBDA s : <<EM(s) * VsAt(s, 1) + 5, EM(s) * VsAt(s, 2) + 5>>))
      [] q = "bi.st"    -> DVal2(multi, <<2>>, 1, PerScen(LAMBDA s : <<5 * P.V[1] + EM(s), 5 * P.V[2] + 2 * EM(s)>>))  \* (w*u + x)(u.assign(V))
      [] q = "bi.st.sw" -> DVal2(TRUE, <<2>>, 1, PerScen(LAMBDA s : <<5 * VsAt(s, 1) + EM(s), 5 * VsAt(s, 2) + 2 * EM(s)>>))
      [] q = "bi.st.none" -> DVal2(multi, <<2>>, 1, PerScen(LAMBDA s : <<EM(s), 2 * EM(s)>>))               \* (w*u + x)()
      [] q = "y.get"    -> DVal2(multi, <<>>, 1, PerScen(LAMBDA s : <<EM(s)>>))
      [] q = "y.coef"   -> DVal2(multi, <<2>>, 1, PerScen(LAMBDA s : <<NaN, 3>>))                           \* y.get(u)
      [] q = "y.coef1"  -> DVal2(multi, <<>>, 1, PerScen(LAMBDA s : <<3>>))                                 \* y.get(u[1])
      [] q = "y.call"   -> DVal2(multi, <<>>, 1, PerScen(LAMBDA s : <<EM(s) + 3 * P.V[2]>>))                \* y(u.assign(V))
      [] q = "y.call.sw" -> IF multi \/ swser
                            THEN DVal2(TRUE, <<>>, 1, PerScen(LAMBDA s : <<EM(s) + 3 * VsAt(s, 2)>>))
                            ELSE DVal2(FALSE, <<>>, 1, PerScen(LAMBDA s : <<EM(0) + 3 * VsAt(0, 2)>>))
      [] q = "y.none"   -> DVal2(multi, <<>>, 1, PerScen(LAMBDA s : <<EM(s)>>))
      [] q = "ylin"     -> DVal2(multi, <<>>, 1, PerScen(LAMBDA s : <<2 * (EM(s) + 3 * P.V[2]) + 2 * EM(s)>>))  \* (2*y + x[1])(u.assign(V))
      [] q = "obj"      -> DVal2(FALSE, <<>>, P.NS, PerScen(LAMBDA s : <<SumSeq(PerScen(LAMBDA t : 3 * EM(t)))>>))  \* NS * model.get()
DroIdeal(q) == DroVal(q, LAMBDA s : IdealEM(s), IdealMulti, TRUE)
\* DecVarSub.get is Vars.get on the unsolved inner model; DecRoAffine.__call__ adds a per-scenario
\* Series to an ndarray when only the affine part is event-wise; DecAffine.__call__ returns
\* values[0] unless the expression is event-wise, also for scenario-wise realisations.
DroCode(q, F) ==
    IF q = "subget" /\ "dro-slice-get" \notin F THEN DRaises("RuntimeError")
    ELSE IF q \in {"bi.st", "bi.st.sw", "bi.st.none"} /\ CodeMulti /\ "dro-mixed-call" \notin F THEN DRaises("ValueError")
    ELSE DroVal(q, LAMBDA s : CodeEM(s), CodeMulti, "dro-sw-single" \in F)

-----------------------------------------------------------------------------
(* The machine *)
Init ==
    /\ hist = <<>>
    /\ out = "ok"
    /\ CASE Kind = "vars" -> scene \in VarScenes /\ dep = 0 /\ decl = 0
         [] Kind = "call" -> scene \in CallScenes /\ dep = 0 /\ decl = 0
         [] Kind = "atom" -> scene \in {sc \in AtomScenes : AtomSceneOK(sc)} /\ dep = 0 /\ decl = 0
         [] Kind = "ldr"  -> scene \in {[osense |-> o] : o \in P.OSenses} /\ dep = NoDep /\ decl = NoDep
         [] Kind = "dro"  -> scene \in {[labels |-> l] : l \in P.LabelKinds}
                             /\ dep = << [k \in 1..P.NS |-> k - 1] >> /\ decl = {}
Next == DoAdaptRule \/ DoAdaptEvents
Spec == Init /\ [][Next]_vars

\* queries of the current (solved) state, their ideal value and the transcribed one
KindFlags == CASE Kind = "vars" -> <<"slice-get", "dro-slice-get">>
               [] Kind = "ldr"  -> <<"ldr-noadapt-get", "ldr-noadapt-call">>
               [] Kind = "call" -> <<>>
               [] Kind = "atom" -> <<"power-offset", "power-abs", "entropy-sign", "persp-scale", "sum-call", "sum-ops", "square-shape">>
               [] Kind = "dro"  -> <<"dro-slice-get", "dro-mixed-call", "dro-sw-single">>
Queries == CASE Kind = "vars" -> VarQueries(scene)
             [] Kind = "ldr"  -> LdrQueries
             [] Kind = "call" -> <<"call">>
             [] Kind = "atom" -> <<"call">>
             [] Kind = "dro"  -> DroQNames
QIdeal(q) == CASE Kind = "vars" -> VarIdeal(scene, q)
               [] Kind = "ldr"  -> LdrIdeal(q)
               [] Kind = "call" -> CallIdeal(scene)
               [] Kind = "atom" -> AtomIdeal(scene)
               [] Kind = "dro"  -> DroIdeal(q)
QCode(q, F) == CASE Kind = "vars" -> VarCode(scene, q, F)
                 [] Kind = "ldr"  -> LdrCode(q, F)
                 [] Kind = "call" -> CallCode(scene, F)
                 [] Kind = "atom" -> AtomCode(scene, F)
                 [] Kind = "dro"  -> DroCode(q, F)

\* C12 on the transcription selected by Fixed
CodeIsIdeal == LET qs == Queries IN \A j \in 1..Len(qs) : QCode(qs[j], Fixed) = QIdeal(qs[j])
\* ldr: the dependency matrix the formulation uses is what was declared; illegal re-declarations raise
DepExact == Kind = "ldr" => (dep = decl /\ (hist # <<>> => (out = "ok") = hist[Len(hist)].ok))
\* dro: the event list is a partition and labels name their own event
EventsExact == Kind = "dro" =>
    /\ out = "ok"
    /\ UNION {Rng(dep[k]) : k \in 1..Len(dep)} = Scen
    /\ \A s \in Scen : Rng(dep[BlockOf(dep, s)]) = EventOf(s)
TypeOK == out \in {"ok", "err"} /\ Len(hist) <= (IF Kind \in {"ldr", "dro"} THEN P.MaxSteps ELSE 0)

\* Known_f: the named alternatives of a query = what the code returns with defect f unrepaired
AltsOf(q, id) ==
    LET tr == SelectSeq(KindFlags, LAMBDA f : QCode(q, AllFlags \ {f}) # id)
        singles == [j \in 1..Len(tr) |-> [sigs |-> <<SigOf(tr[j])>>, form |-> QCode(q, AllFlags \ {tr[j]})]]
    IN IF Len(tr) <= 1 THEN singles
       ELSE Append(singles, [sigs |-> [j \in 1..Len(tr) |-> SigOf(tr[j])], form |-> QCode(q, AllFlags \ Rng(tr))])
QRec(q) == LET id == QIdeal(q) IN [q |-> q, want |-> id, alts |-> AltsOf(q, id)]
QRecs == LET qs == Queries IN [j \in 1..Len(qs) |-> QRec(qs[j])]

ExportRec ==
    CASE Kind = "vars" ->
            [kind |-> "vars", scene |-> scene, dims |-> [p \in 1..Len(scene.shapes) |-> ShapeOf(scene.shapes[p])],
             vals |-> [p \in 1..Len(scene.shapes) |-> [i \in 1..SizeOf(ShapeOf(scene.shapes[p])) |-> VVal(p, i - 1)]],
             first |-> [p \in 1..Len(scene.shapes) |-> First(scene, p)],
             amat |-> [i \in 1..2 |-> [t \in 1..3 |-> AMat(i, t)]],
             queries |-> QRecs]
      [] Kind = "ldr" ->
            [kind |-> "ldr", scene |-> scene, n1 |-> P.N1, n2 |-> P.N2, ny |-> P.NY, hist |-> hist, out |-> out,
             decl |-> [i \in 1..P.NY |-> [k \in 1..NR |-> IF decl[i][k] THEN 1 ELSE 0]],
             cmat |-> [i \in 1..P.NY |-> [k \in 1..NR |-> IF decl[i][k] THEN CVal(i, k) ELSE 0]],
             d |-> [i \in 1..P.NY |-> DVal(i)], v1 |-> P.V1, v2 |-> P.V2,
             queries |-> QRecs]
      [] Kind = "call" ->
            [kind |-> "call", scene |-> scene, x |-> P.X, v1 |-> CallV(scene, 1), v2 |-> CallV(scene, 2), scalar |-> P.Scalar,
             data |-> [a |-> Ca, A1 |-> CA1, A2 |-> CA2, b |-> Cb, B1 |-> CB1, B2 |-> CB2],
             queries |-> << QRec("call") >>]
      [] Kind = "atom" ->
            [kind |-> "atom", scene |-> scene, unsup |-> scene.fe \in AtomInfo(scene.atom).unsup,
             shp |-> AtomInfo(scene.atom).shp, queries |-> << QRec("call") >>]
      [] Kind = "dro" ->
            [kind |-> "dro", scene |-> scene, ns |-> P.NS, zhat |-> P.Zhat, hist |-> hist, ea |-> dep,
             v |-> P.V, vs |-> P.Vs, queries |-> QRecs]

Export == PrintT(ToJson(ExportRec))
=============================================================================
