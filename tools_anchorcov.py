"""Diagnostic (not a check): which statements of the code named in the properties' anchors do the replay families
execute?  Usage: tools_anchorcov.py <dir written by bin/anchorcov>.

Anchors carry line numbers of the PINNED snapshot; they are mapped to the enclosing function / class at that snapshot
(git show <first commit>:file) and then to the same qualified name in the current tree, so repairs that shifted
lines do not matter.  A statement that no family executes is a place where a regression cannot be noticed.
"""
import ast
import glob
import json
import os
import re
import subprocess
import sys

REPO = os.environ.get('VERIF_REPO', '/repo')
ROOT = os.path.dirname(os.path.abspath(__file__))
OWN = {'C02': 'C01', 'C04': 'C03', 'C17': 'C09', 'C19': 'C09'}     # checks sharing one suite run


def pinned_commit():
    out = subprocess.run(['git', '-C', REPO, 'rev-list', '--max-parents=0', 'HEAD'], capture_output=True, text=True).stdout.split()
    return out[-1]


def defs_of(src):
    """[(qualname, first line, last line, [statement lines])] for every function / method, innermost first."""
    tree = ast.parse(src)
    out = []

    def stmts(node):
        ls = set()
        for n in ast.walk(node):
            if isinstance(n, ast.stmt) and not isinstance(n, (ast.FunctionDef, ast.ClassDef)):
                if isinstance(n, ast.Expr) and isinstance(getattr(n, 'value', None), ast.Constant) and isinstance(n.value.value, str):
                    continue
                ls.add(n.lineno)
        return sorted(ls)

    def walk(node, prefix):
        for ch in ast.iter_child_nodes(node):
            if isinstance(ch, (ast.FunctionDef, ast.ClassDef)):
                q = prefix + ch.name
                walk(ch, q + '.')
                if isinstance(ch, ast.FunctionDef):
                    out.append((q, ch.lineno, ch.end_lineno, stmts(ch)))
    walk(tree, '')
    return out


def parse_where(where):
    """-> [(file, a, b)]"""
    res, cur = [], None
    for m in re.finditer(r'(rsome/[\w_]+\.py)|(?<![\w.])(\d+)(?:-(\d+))?(?![\w.])', where):
        if m.group(1):
            cur = m.group(1)
        elif cur:
            a = int(m.group(2))
            res.append((cur, a, int(m.group(3)) if m.group(3) else a))
    return res


def main(cdir):
    base = pinned_commit()
    props = [json.loads(l) for l in open(os.path.join(ROOT, 'properties.jsonl'))]
    pinned, current = {}, {}

    def load(f):
        if f not in pinned:
            src = subprocess.run(['git', '-C', REPO, 'show', '%s:%s' % (base, f)], capture_output=True, text=True).stdout
            pinned[f] = defs_of(src)
            current[f] = {q: (a, b, st) for q, a, b, st in defs_of(open(os.path.join(REPO, f)).read())}
    import coverage
    executed = {}          # check id -> file -> set(lines)
    for d in sorted(glob.glob(os.path.join(cdir, 'C??'))):
        cid = os.path.basename(d)
        ex = {}
        for fn in glob.glob(os.path.join(d, 'cov.*')):
            cd = coverage.CoverageData(basename=fn)
            cd.read()
            for f in cd.measured_files():
                rel = 'rsome/' + os.path.basename(f)
                ex.setdefault(rel, set()).update(cd.lines(f) or [])
        executed[cid] = ex
    union = {}
    for ex in executed.values():
        for f, ls in ex.items():
            union.setdefault(f, set()).update(ls)
    print('checks with coverage data:', sorted(executed))
    grand = [0, 0]
    for p in props:
        pid = p['id']
        own = executed.get(OWN.get(pid, pid), {})
        print('\n== %s %s' % (pid, p['title']))
        for mech in p['anchors']['mechanism']:
            funcs = {}
            for f, a, b in parse_where(mech['where']):
                if not os.path.exists(os.path.join(REPO, f)):
                    continue
                load(f)
                hits = [(q, fa, fb) for q, fa, fb, _ in pinned[f] if fa <= b and fb >= a]
                if a == b and hits:       # a single line names a def: innermost function containing it
                    hits = [min(hits, key=lambda h: h[2] - h[1])]
                for q, _, _ in hits:
                    funcs[(f, q)] = True
            for (f, q) in sorted(funcs):
                if q not in current[f]:
                    print('   %-58s (no longer present under this name)' % ('%s %s' % (f, q)))
                    continue
                a, b, st = current[f][q]
                eo = [l for l in st if l in own.get(f, ())]
                eu = [l for l in st if l in union.get(f, ())]
                miss = [l for l in st if l not in union.get(f, ())]
                grand[0] += len(eu)
                grand[1] += len(st)
                print('   %-58s own %3d/%3d  any-check %3d/%3d%s' % ('%s %s' % (f, q), len(eo), len(st), len(eu), len(st),
                                                                   ('  never: ' + _ranges(miss)) if miss else ''))
    print('\nanchored statements executed by some family: %d of %d' % tuple(grand))
    # whole-library view: functions never entered
    print('\n== functions of rsome never entered by any family (solver interfaces without solver excluded)')
    for f in sorted(set(os.path.join('rsome', os.path.basename(x)) for x in glob.glob(os.path.join(REPO, 'rsome', '*.py')))):
        if re.search(r'(clp|cpx|msk|cpt|lpg|cvx)_solver', f):
            continue
        load(f)
        never = [q for q, (a, b, st) in sorted(current[f].items(), key=lambda kv: kv[1][0]) if st and not any(l in union.get(f, ()) for l in st)]
        tot = len([1 for q, (a, b, st) in current[f].items() if st])
        print('  %s: %d of %d functions never entered' % (f, len(never), tot))
        for q in never:
            print('      ' + q)


def _ranges(ls):
    out, start, prev = [], None, None
    for l in ls:
        if start is None:
            start = prev = l
        elif l == prev + 1:
            prev = l
        else:
            out.append('%d-%d' % (start, prev) if prev > start else str(start))
            start = prev = l
    if start is not None:
        out.append('%d-%d' % (start, prev) if prev > start else str(start))
    return ','.join(out[:25]) + (' ...' if len(out) > 25 else '')


if __name__ == '__main__':
    main(sys.argv[1])
